"""C11 — group and person-pointer aggregates equal their mathematical definition."""
from __future__ import annotations

import datetime
import json
import math
from fractions import Fraction

import common as C
import engine
import impl
import metam
import modelio as M
import popgen

PRELUDE = "From GettsimModel Require Import Column Aggregation CorrAgg.\nOpen Scope Z_scope.\n"

KINDS = ["sum", "count", "mean", "max", "min", "any", "all"]


def gen_ids(rnd, n, malformed=False):
    style = rnd.choice(["dense", "sparse", "unsorted", "single", "all_distinct"])
    if style == "single":
        g = [rnd.randrange(0, 50)] * n
    elif style == "all_distinct":
        g = rnd.sample(range(0, 10 * n + 5), n)
    else:
        pool = rnd.sample(range(0, 8 if style == "dense" else 5000), rnd.randint(1, min(n, 5)))
        g = [rnd.choice(pool) for _ in range(n)]
        if style != "unsorted":
            g.sort()
    if malformed and n:
        g[rnd.randrange(n)] = -rnd.randint(1, 5)
    return g


def gen_col(rnd, n, kind):
    if kind == "float":
        return [rnd.choice([0.0, 0.25, 1.5, 100.0, 1234.56, -3.75, 1e6, 0.1]) if rnd.random() < 0.7
                else round(rnd.uniform(-1000, 5000), 2) for _ in range(n)]
    if kind == "int":
        return [rnd.choice([0, 0, 1, 2, -3, 17, 1000, 25]) for _ in range(n)]
    if kind == "bool":
        return [rnd.random() < 0.4 for _ in range(n)]
    if kind == "date":
        return [rnd.randint(3000, 20000) for _ in range(n)]   # days since 1970
    raise ValueError(kind)


def np_col(vals, kind):
    import numpy as np

    if kind == "date":
        return np.array(vals, dtype="int64").astype("datetime64[D]")
    return np.array(vals, dtype={"float": "float64", "int": "int64", "bool": "bool"}[kind])


def coq_col(vals, kind):
    if kind == "float":
        return "(CFloat [" + "; ".join(C.cxq(v) for v in vals) + "])"
    if kind == "int":
        return "(CInt [" + "; ".join(C.cz(v) for v in vals) + "])"
    if kind == "bool":
        return "(CBool [" + "; ".join("true" if v else "false" for v in vals) + "])"
    return "(CDate [" + "; ".join(C.cz(v + 719163) for v in vals) + "])"


def coq_zs(vals):
    return "[" + "; ".join(C.cz(v) for v in vals) + "]"


def canon_np(a):
    import numpy as np

    a = np.asarray(a)
    if np.issubdtype(a.dtype, np.datetime64):
        return "date", [int(x) + 719163 for x in a.astype("datetime64[D]").astype("int64")]
    if a.dtype == bool:
        return "bool", [bool(x) for x in a]
    if np.issubdtype(a.dtype, np.integer):
        return "int", [int(x) for x in a]
    if np.issubdtype(a.dtype, np.floating):
        return "float", [float(x) for x in a]
    return str(a.dtype), a.tolist()


def run_impl(f, *args):
    try:
        return ("ok",) + canon_np(f(*args))
    except Exception as ex:  # noqa: BLE001
        return ("err", type(ex).__name__, str(ex)[:120])


def reference(kind, vals, g, colkind):
    """independent per-group reference (exact arithmetic)"""
    groups = {}
    for v, k in zip(vals, g):
        groups.setdefault(k, []).append(v)
    out = []
    for k in g:
        m = groups[k]
        if kind == "sum":
            out.append(sum(Fraction(repr(x)) if isinstance(x, float) else int(x) for x in m))
        elif kind == "count":
            out.append(len(m))
        elif kind == "mean":
            out.append(sum(Fraction(repr(x)) for x in m) / len(m))
        elif kind == "max":
            out.append(max(m))
        elif kind == "min":
            out.append(min(m))
        elif kind == "any":
            out.append(any(bool(x) for x in m))
        elif kind == "all":
            out.append(all(bool(x) for x in m))
    return out


def agrees_ref(imp, ref):
    if imp[0] != "ok":
        return False
    for y, r in zip(imp[2], ref):
        if isinstance(r, bool) or isinstance(y, bool):
            if bool(y) != bool(r):
                return False
        elif isinstance(y, float):
            if not M.close(y, Fraction(r) if not isinstance(r, float) else Fraction(repr(r))):
                return False
        elif y != r:
            return False
    return True


def model_matches(imp, mod):
    """imp: ('ok', dtype, values) | ('err', kind, msg); mod: parsed model JSON"""
    if isinstance(mod, M.ModelErr):
        return imp[0] == "err" and C.EXC_MAP.get(imp[1]) == {"ValueError": "EValue", "TypeError": "EType", "KeyError": "EKey",
                                                            "IndexError": "EIndex"}.get(mod.kind, mod.kind) \
            or (imp[0] == "err" and mod.kind in ("ValueError", "IndexError") and imp[1] in ("ValueError", "IndexError"))
    if imp[0] != "ok":
        return False
    if mod.get("t") != imp[1]:
        return False
    mv = mod.get("v", [])
    if len(mv) != len(imp[2]):
        return False
    for y, m in zip(imp[2], mv):
        if isinstance(m, tuple) and m[0] == "f":
            if not isinstance(y, float) or not M.close(y, m[1]):
                return False
        elif isinstance(m, M.Date):
            if y != m.ordinal:
                return False
        elif isinstance(m, bool) or isinstance(y, bool):
            if y is not m:
                return False
        elif y != m:
            return False
    return True


def u2(ctx, res):
    impl.setup()
    from _gettsim import aggregation_numpy as an
    from _gettsim.shared import join_numpy
    import numpy as np

    rnd = ctx.rng("u2")
    n_cases = 400 if ctx.tier == "quick" else 4000
    cases = []
    for ci in range(n_cases):
        n = rnd.choice([1, 2, 3, 4, 5, 6, 8, 12])
        malformed = rnd.random() < 0.06
        op = rnd.choice(KINDS + ["sum_by_p_id", "sum_by_p_id", "join"])
        if op in KINDS:
            colkind = rnd.choice(["float", "int", "bool", "date"])
            vals = gen_col(rnd, n, colkind)
            g = gen_ids(rnd, n, malformed)
            f = getattr(an, f"grouped_{op}")
            if op == "count":
                imp = run_impl(f, np.array(g, dtype="int64"))
                expr = f"json_col (grouped_count {coq_zs(g)})"
            else:
                imp = run_impl(f, np_col(vals, colkind), np.array(g, dtype="int64"))
                expr = f"json_col (grouped_{op} {coq_col(vals, colkind)} {coq_zs(g)})"
            cases.append(dict(op=op, colkind=colkind, vals=vals, ids=g, impl=imp, expr=expr))
        elif op == "sum_by_p_id":
            colkind = rnd.choice(["float", "int", "bool"])
            vals = gen_col(rnd, n, colkind)
            pids = rnd.sample(range(0, 40 * n + 5), n)
            ptr = [rnd.choice(pids + [-1, -1]) for _ in range(n)]
            if malformed:
                ptr[rnd.randrange(n)] = max(pids) + 7
            imp = run_impl(an.sum_by_p_id, np_col(vals, colkind), np.array(ptr, dtype="int64"), np.array(pids, dtype="int64"))
            expr = f"json_col (sum_by_p_id {coq_col(vals, colkind)} {coq_zs(ptr)} {coq_zs(pids)})"
            cases.append(dict(op=op, colkind=colkind, vals=vals, ptr=ptr, pids=pids, impl=imp, expr=expr))
        else:
            vals = gen_col(rnd, n, "int")
            pk = rnd.sample(range(0, 40 * n + 5), n)
            fk = [rnd.choice(pk + [-1, -1]) for _ in range(n)]
            if malformed:
                if rnd.random() < 0.5:
                    fk[rnd.randrange(n)] = max(pk) + 3
                elif n > 1:
                    pk[0] = pk[1]
            imp = run_impl(join_numpy, np.array(fk, dtype="int64"), np.array(pk, dtype="int64"), np.array(vals, dtype="int64"), -99)
            expr = (f"json_col (match join_list {coq_zs(fk)} {coq_zs(pk)} {coq_zs(vals)} (-99) with Ok l => Ok (CInt l) | Err e => Err e end)")
            cases.append(dict(op=op, colkind="int", vals=vals, fk=fk, pk=pk, impl=imp, expr=expr))
    # model
    import concurrent.futures as cf

    shards = [list(range(i, len(cases), 8)) for i in range(8)]

    def one(a):
        k, idx = a
        if not idx:
            return []
        r, _ = M.eval_json(f"U2_{k}", PRELUDE, [cases[i]["expr"] for i in idx], timeout=900, workdir=C.WORK / "u2")
        return list(zip(idx, r))

    model = {}
    with cf.ThreadPoolExecutor(max_workers=8) as ex:
        for part in ex.map(one, list(enumerate(shards))):
            model.update(dict(part))
    stats = dict(cases=len(cases), by_op={}, impl_errors={}, differences=0, refuted_by_reference=0)
    for i, c in enumerate(cases):
        stats["by_op"][c["op"]] = stats["by_op"].get(c["op"], 0) + 1
        if c["impl"][0] == "err":
            stats["impl_errors"][c["impl"][1]] = stats["impl_errors"].get(c["impl"][1], 0) + 1
        if model_matches(c["impl"], model[i]):
            continue
        stats["differences"] += 1
        info = {k: v for k, v in c.items() if k != "expr"}
        info["model"] = repr(model[i])[:300]
        # decide with the independent reference whether the IMPLEMENTATION violates the definition
        bad_impl = False
        if c["op"] in KINDS and c["impl"][0] == "ok" and all(k >= 0 for k in c["ids"]):
            try:
                ref = reference(c["op"], c["vals"], c["ids"], c["colkind"])
                bad_impl = not agrees_ref(c["impl"], ref)
                info["reference"] = [str(x) for x in ref]
            except Exception:  # noqa: BLE001
                pass
        if c["op"] == "sum_by_p_id" and c["impl"][0] == "ok" and all(p < 0 or p in c["pids"] for p in c["ptr"]):
            want = [sum((Fraction(repr(v)) if isinstance(v, float) else int(v)) for v, p in zip(c["vals"], c["ptr"]) if p == pid) for pid in c["pids"]]
            bad_impl = not all((M.close(float(a), Fraction(b)) if isinstance(a, float) else int(a) == int(b)) for a, b in zip(c["impl"][2], want))
            info["reference"] = [str(x) for x in want]
        if c["op"] == "join" and c["impl"][0] == "ok" and len(set(c["pk"])) == len(c["pk"]):
            want = [c["vals"][c["pk"].index(k)] if k in c["pk"] else -99 for k in c["fk"]]
            bad_impl = list(c["impl"][2]) != want
            info["reference"] = want
        if bad_impl:
            stats["refuted_by_reference"] += 1
        if len([v for v in res.violations if v["key"].startswith("u2:")]) < 5:
            res.add_violation(f"u2:{c['op']}:{c['colkind']}", f"aggregate {c['op']} on {c['colkind']} column: implementation {c['impl']}, "
                              f"model {info['model']}", dict(kind="u2", **info), bad_impl)
    res.evaluations += len(cases)
    res.distinct += len({json.dumps({k: v for k, v in c.items() if k not in ("impl", "expr")}, sort_keys=True, default=str) for c in cases})
    res.samples += [dict(unit="U2", **{k: v for k, v in c.items() if k != "expr"}) for c in cases[:3]]
    res.extra["u2"] = stats


def t4_loader(ctx, res):
    """automatic group sums, explicit specs, and precedence of user specs — on the real engine"""
    impl.setup()
    rnd = ctx.rng("t4")
    o = impl.ordinal("2024-01-01")
    n = 0
    bad = []
    for rep in range(2 if ctx.tier == "quick" else 10):
        df = popgen.to_frame(popgen.population(rnd, 2024, 10, id_style=rnd.choice(["sparse", "unsorted"])))
        df = df.sample(frac=1.0, random_state=rnd.randrange(10**6)).reset_index(drop=True)
        # (a) automatic sums at every grouping level
        for grp in ["hh", "fg", "bg", "eg", "ehe", "sn", "wthh"]:
            tgt = f"bruttolohn_m_{grp}"
            try:
                out, _ = engine.simulate(df, o, targets=[tgt, f"{grp}_id"] if grp != "hh" else [tgt])
            except Exception as ex:  # noqa: BLE001
                bad.append(dict(kind="automatic group sum not created", target=tgt, error=f"{type(ex).__name__}: {ex}"[:200]))
                continue
            ids = df["hh_id"] if grp == "hh" else out[f"{grp}_id"]
            want = df["bruttolohn_m"].groupby(ids.to_numpy()).transform("sum")
            n += 1
            if not all(M.close(float(a), Fraction(repr(float(b)))) for a, b in zip(out[tgt], want)):
                bad.append(dict(kind="automatic group sum is not the sum over the group", target=tgt))
        # (a2) EVERY built-in group aggregation specification (explicit specs take precedence over automatic sums)
        rules_cfg = ctx.load_rules()["config"]["aggregate_by_group"]
        d = metam.dag_for(o)
        live = set(d["order"])
        todo = []
        for agg, spec in rules_cfg.items():
            grp = next((g for g in ["hh", "wthh", "fg", "bg", "eg", "ehe", "sn"] if agg.endswith("_" + g)), None)
            src = spec.get("source_col")
            if grp is None or agg not in live or (src is not None and src not in live and src not in df.columns):
                continue
            todo.append((agg, spec["aggr"], src, grp))
        tg = sorted({a for a, _, _, _ in todo} | {s_ for _, _, s_, _ in todo if s_ and s_ not in df.columns} | {f"{g}_id" for _, _, _, g in todo if g != "hh"})
        try:
            allout, _ = engine.simulate(df, o, targets=tg)
        except Exception as ex:  # noqa: BLE001
            allout = None
            res.extra.setdefault("t4_skipped", []).append(f"{type(ex).__name__}: {str(ex)[:120]}")
        if allout is not None:
            for agg, aggr, src, grp in todo:
                ids = df["hh_id"].to_numpy() if grp == "hh" else allout[f"{grp}_id"].to_numpy()
                col = None if src is None else (df[src] if src in df.columns else allout[src])
                import pandas as pd

                if aggr == "count":
                    want = pd.Series(1, index=range(len(df))).groupby(ids).transform("sum").to_numpy()
                else:
                    sv = pd.Series(col.to_numpy())
                    sv = sv.astype(int) if sv.dtype == bool and aggr == "sum" else sv
                    want = sv.groupby(ids).transform({"sum": "sum", "mean": "mean", "max": "max", "min": "min", "any": "any", "all": "all"}[aggr]).to_numpy()
                got = allout[agg].to_numpy()
                n += 1
                ok = all((bool(a) == bool(b)) if aggr in ("any", "all") else M.close(float(a), Fraction(repr(float(b)))) for a, b in zip(got, want))
                if ok and aggr in ("any", "all") and got.dtype != bool:
                    ok = False
                if not ok:
                    bad.append(dict(kind=f"built-in specification ({aggr} of {src}) is not what the column holds", target=agg,
                                    got=[metam._py(v) for v in got[:8]], expected=[metam._py(v) for v in want[:8]], dtype=str(got.dtype)))
        # (b) explicit user spec is used
        spec = {"bruttolohn_m_hh": {"source_col": "bruttolohn_m", "aggr": "max"}}
        out, _ = engine.simulate(df, o, targets=["bruttolohn_m_hh"], aggregate_by_group_specs=spec)
        want = df["bruttolohn_m"].groupby(df["hh_id"].to_numpy()).transform("max")
        n += 1
        if not all(float(a) == float(b) for a, b in zip(out["bruttolohn_m_hh"], want)):
            bad.append(dict(kind="explicit user specification ignored (automatic sum used)", target="bruttolohn_m_hh"))
        # (c) a user spec takes precedence over a built-in one
        spec = {"anz_personen_hh": {"source_col": "kind", "aggr": "sum"}}
        try:
            out, _ = engine.simulate(df, o, targets=["anz_personen_hh"], aggregate_by_group_specs=spec)
            want = df["kind"].astype(int).groupby(df["hh_id"].to_numpy()).transform("sum")
            n += 1
            if not all(int(a) == int(b) for a, b in zip(out["anz_personen_hh"], want)):
                bad.append(dict(kind="user specification does not take precedence over the built-in one", target="anz_personen_hh"))
        except Exception as ex:  # noqa: BLE001
            bad.append(dict(kind="user specification overriding a built-in one fails", error=f"{type(ex).__name__}: {ex}"[:200]))
        # (d) person-pointer aggregate through the engine: kindergeld children counted at the recipient
        spec = {"n_kg_kinder": {"p_id_to_aggregate_by": "p_id_kindergeld_empf", "source_col": "kind", "aggr": "sum"}}
        try:
            out, _ = engine.simulate(df, o, targets=["n_kg_kinder"], aggregate_by_p_id_specs=spec)
            cnt = {}
            for ptr, k in zip(df["p_id_kindergeld_empf"], df["kind"]):
                if ptr >= 0:
                    cnt[ptr] = cnt.get(ptr, 0) + int(k)
            n += 1
            if [int(x) for x in out["n_kg_kinder"]] != [cnt.get(p, 0) for p in df["p_id"]]:
                bad.append(dict(kind="person-pointer sum credits the wrong person", target="n_kg_kinder"))
        except Exception as ex:  # noqa: BLE001
            bad.append(dict(kind="person-pointer aggregate fails", error=f"{type(ex).__name__}: {ex}"[:200]))
    res.evaluations += n
    res.extra["t4_engine_checks"] = n
    for b in bad[:5]:
        res.add_violation(f"t4:{b['kind']}:{b.get('target', '')}", f"{b['kind']} ({b.get('target', '')}) {b.get('error', '')}", dict(b, kind="t4", what=b["kind"]), True)


def run(ctx, res):
    u2(ctx, res)
    t4_loader(ctx, res)
    res.rule = ("U2: the real grouped_{sum,count,mean,max,min,any,all}, sum_by_p_id and join_numpy on generated float/int/bool/date "
                "columns with dense, sparse, unsorted, single-group and all-distinct ids (6% malformed: negative ids, dangling "
                "pointers, duplicate keys) vs the Gallina model evaluated by vm_compute: values, dtype and exception class; a "
                "difference is classified with an independent per-group reference. T4: automatic sums at all seven grouping levels, "
                "explicit user specs, user-over-built-in precedence and a person-pointer aggregate through the real engine. "
                "distinct = distinct (operation, column, ids) inputs.")


def replay(payload):
    print(json.dumps(payload["payload"], indent=1, default=str, ensure_ascii=False))
    return 1
