"""C09 — rewriting a rule into array form preserves its meaning."""
from __future__ import annotations

import json
import subprocess
import sys

import common as C
import coqrun
import impl

PRELUDE = "From GettsimModel Require Import Vectorize.\nFrom GettsimGen Require Import GenRules.\n"


def known_rules():
    return [f["key"].split(":", 1)[1] for f in C.load_known_findings() if f.get("property") == "C09" and f.get("key", "").startswith("array-form:")]


def obligations():
    known = "[" + "; ".join(f'"{r}"' for r in known_rules()) + "]"
    return [dict(
        name="c09_rule_shapes",
        stmt=f"risks_ok_except {known} all_fundefs = true",
        proof="vm_cast_no_check (@eq_refl bool true).",
        what="every `if` of every translated rule (all validity periods) has a shape for which the rewrite is proved sound "
             "(return/return, assign/assign same target, assign without else, augassign/augassign, nested) or is rejected by the "
             "Transformer, and no rule applies min/max/sum/any/all to a list of columns — except the listed known rules",
        diag=f'String.concat ";" (filter (fun n => negb (existsb (String.eqb n) {known})) (risky_rules all_fundefs))')]


def run_u8(tier):
    p = subprocess.run([C.PY, str(C.VERIF / "tools" / "u8_vec.py"), tier], env=C.ENV, capture_output=True, text=True, timeout=3000)
    for line in p.stdout.splitlines():
        if line.startswith("U8JSON"):
            return json.loads(line[6:])
    raise RuntimeError("U8 failed: " + (p.stderr or p.stdout)[-1500:])


SNIPPETS = [
    # (name, source, in documented style?)  array form must equal the scalar function per position or fail loudly
    ("abs_if_else", "def f(x):\n    if x < 0:\n        out = -x\n    else:\n        out = x\n    return out\n"),
    ("elif_chain", "def f(x):\n    if x < 0:\n        out = -1\n    elif x > 10:\n        out = 2\n    else:\n        out = 0\n    return out\n"),
    ("return_branches", "def f(x, y):\n    if x > y:\n        return x - y\n    else:\n        return 0.0\n"),
    ("ifexp_and_or_not", "def f(x, b):\n    out = x if (x > 1 and not b) or x < -5 else 0\n    return out\n"),
    ("min_max_two_args", "def f(x, y):\n    return max(min(x, y), 0)\n"),
    ("assign_without_else", "def f(x):\n    out = x\n    if x > 3:\n        out = 3\n    return out\n"),
    ("aug_both_branches", "def f(x):\n    out = 1.0\n    if x > 0:\n        out += x\n    else:\n        out += 0\n    return out\n"),
    ("aug_without_else", "def f(x):\n    out = 10.0\n    if x > 0:\n        out += x\n    return out\n"),
    ("aug_without_else_sub", "def f(x):\n    out = 10.0\n    if x > 0:\n        out -= 1\n    return out\n"),
    ("min_of_list", "def f(x, y):\n    out = min([x, y])\n    return out\n"),
    ("sum_of_list", "def f(x, y):\n    return sum([x, y])\n"),
    ("mismatched_targets", "def f(x):\n    a = 1\n    b = 2\n    if x > 0:\n        a = 10\n    else:\n        b = 20\n    return a + b\n"),
    ("two_statements", "def f(x):\n    if x > 0:\n        a = 1\n        b = 2\n    else:\n        a = 0\n        b = 0\n    return a + b\n"),
    ("return_without_else", "def f(x):\n    if x > 0:\n        return 1\n    return 0\n"),
    # conditions used through truthiness (a count or an amount), Boolean literals in the branches, results used in arithmetic afterwards
    ("bool_literals_if_truthy", "def f(x, y):\n    if x:\n        flag = True\n    else:\n        flag = False\n    return flag * y + 1.0\n"),
    ("bool_literals_ifexp_truthy", "def f(x, y):\n    flag = True if x else False\n    return flag * 100.0 + y\n"),
    ("bool_literals_negated", "def f(x, y):\n    flag = False if x else True\n    return flag * 100.0 + y\n"),
    ("bool_literals_comparison", "def f(x, y):\n    flag = True if x > y else False\n    return flag * 7.0\n"),
    ("truthy_condition_values", "def f(x, y):\n    return y if x else -y\n"),
    ("int_literals_truthy", "def f(x, y):\n    k = 2 if x else 3\n    return k * y\n"),
    ("bool_return_branches", "def f(x):\n    if x > 1:\n        return True\n    else:\n        return False\n"),
    ("chained_comparison", "def f(x):\n    return 1.0 if 0 < x <= 4 else 0.0\n"),
    ("nested_ifexp", "def f(x, y):\n    return (x if x > y else y) if x > 0 else (0.0 if y > 0 else -1.0)\n"),
    ("not_truthy", "def f(x, y):\n    out = y if not x else 0.0\n    return out\n"),
]


def run_snippets():
    """generated functions of / just outside the documented style through the REAL rewriter, in a subprocess"""
    code = r'''
import sys, json, warnings, types, importlib, importlib.util, linecache
warnings.filterwarnings("ignore")
import numpy as np
from _gettsim.vectorization import make_vectorizable
snips = json.loads(sys.stdin.read())
out = {}
for name, src in snips:
    fn = WORKDIR + "/u8_snip_%s.py" % name
    open(fn, "w").write(src)
    spec = importlib.util.spec_from_file_location("snip_" + name, fn)
    mod = importlib.util.module_from_spec(spec); spec.loader.exec_module(mod)
    f = mod.f
    xs = [-7.0, -1.0, 0.0, 0.5, 1.0, 2.0, 4.0, 11.0]
    ys = [3.0, -2.0, 0.0, 0.5, 5.0, -1.0, 4.0, 1.0]
    bs = [True, False, True, False, True, False, True, False]
    import inspect
    names = list(inspect.signature(f).parameters)
    cols = {"x": xs, "y": ys, "b": bs}
    sc = []
    for i in range(len(xs)):
        try: sc.append(float(f(*[cols[n][i] for n in names])))
        except Exception as e: sc.append("err:" + type(e).__name__)
    try:
        vf = make_vectorizable(f, "numpy")
    except Exception as e:
        out[name] = dict(stage="rewrite", error=type(e).__name__); continue
    try:
        v = vf(*[np.array(cols[n]) for n in names])
        v = [float(z) for z in np.broadcast_to(np.asarray(v), (len(xs),))]
    except Exception as e:
        out[name] = dict(stage="call", error=type(e).__name__); continue
    bad = [dict(i=i, inputs={n: cols[n][i] for n in names}, array_form=v[i], scalar=sc[i]) for i in range(len(xs)) if not isinstance(sc[i], str) and abs(v[i] - sc[i]) > 1e-12]
    out[name] = dict(stage="ok", differences=bad[:2], positions=len(xs))
# two DIFFERENT functions with the same function name in equally named files (reform_a/regeln.py, reform_b/regeln.py),
# converted one after the other in this process: each array form must agree with its own scalar function
import os
pair = [("a", "def zuschlag_m(x):\n    if x > 0:\n        out = x + 50.0\n    else:\n        out = 0.0\n    return out\n"),
        ("b", "def zuschlag_m(x):\n    if x > 1:\n        out = 3.0 * x\n    else:\n        out = -80.0\n    return out\n")]
bad = []
for tag, src in pair:
    d = WORKDIR + "/u8_pair_" + tag
    os.makedirs(d, exist_ok=True)
    fn = d + "/regeln.py"
    open(fn, "w").write(src)
    spec = importlib.util.spec_from_file_location("regeln.py", fn)
    mod = importlib.util.module_from_spec(spec); spec.loader.exec_module(mod)
    f = mod.zuschlag_m
    xs = [-7.0, 0.0, 0.5, 1.0, 2.0, 11.0]
    sc = [float(f(x)) for x in xs]
    try:
        v = [float(z) for z in np.asarray(make_vectorizable(f, "numpy")(np.array(xs)))]
    except Exception as e:
        out["same_name_pair_" + tag] = dict(stage="call", error=type(e).__name__); continue
    diffs = [dict(i=i, inputs={"x": xs[i]}, array_form=v[i], scalar=sc[i]) for i in range(len(xs)) if abs(v[i] - sc[i]) > 1e-12]
    out["same_name_pair_" + tag] = dict(stage="ok", differences=diffs[:2], positions=len(xs))
print("SNIP" + json.dumps(out))
'''
    code = code.replace("WORKDIR", repr(str(C.WORK)))
    p = subprocess.run([C.PY, "-c", code], env=C.ENV, input=json.dumps([[n, s] for n, s in SNIPPETS]), capture_output=True, text=True, timeout=600)
    for line in p.stdout.splitlines():
        if line.startswith("SNIP"):
            return json.loads(line[4:])
    raise RuntimeError("snippets failed: " + (p.stderr or p.stdout)[-1500:])


def run(ctx, res):
    out = coqrun.prove("C09", PRELUDE, obligations(), shards=1, timeout=900)
    res.obligations += out
    u8 = run_u8(ctx.tier)
    res.evaluations += u8["positions"]
    res.distinct += u8["rules"]
    res.extra["u8"] = {k: v for k, v in u8.items() if k != "differences"}
    res.extra["u8"]["rules_with_differences"] = [d["rule"] for d in u8["differences"]]
    res.samples += [dict(unit="U8", **d) for d in u8["differences"][:2]] or [dict(unit="U8", note="no differing rule")]
    found = set()
    for d in u8["differences"]:
        found.add(d["rule"])
        res.add_violation(f"array-form:{d['rule']}", f"the array form of {d['rule']} silently returns {d['array_form']} where the rule returns {d['scalar']} "
                          f"(position {d['position']}, inputs {d['inputs']}, {d['date']})", dict(kind="u8", **d), True)
    sn = run_snippets()
    res.extra["snippets"] = {k: (v["stage"] if v["stage"] != "ok" else ("differs" if v["differences"] else "equal")) for k, v in sn.items()}
    res.evaluations += sum(v.get("positions", 0) for v in sn.values())
    # snippets in the documented style must be equal; the two refuted shapes and list reductions are the known mechanisms
    mech = {"aug_without_else": "augmented assignment without else", "aug_without_else_sub": "augmented assignment without else",
            "min_of_list": "reduction over a list of columns", "sum_of_list": "reduction over a list of columns",
            "mismatched_targets": "branches assign different targets"}
    for name, v in sn.items():
        if v["stage"] == "ok" and v["differences"]:
            res.add_violation(f"transformer:{mech.get(name, name)}", f"the Transformer silently changes the meaning of `{name}`: {v['differences'][0]}",
                              dict(kind="snippet", snippet=name, source=dict(SNIPPETS).get(name, "two functions named zuschlag_m in reform_a/regeln.py and reform_b/regeln.py"), difference=v["differences"][0]), True)
    for ob in out:
        if not ob["ok"]:
            names = [n for n in (ob.get("diag") or "").split(";") if n]
            for n in names:
                if n not in found:
                    res.add_violation(f"array-form:{n}", f"rule {n} uses a shape whose rewrite is not sound (no input exhibiting a difference found)",
                                      dict(kind="shape", rule=n), False)
            if not names:
                res.add_violation(f"obligation:{ob['name']}", f"obligation {ob['name']} no longer checks: {ob['err'][-300:]}", dict(kind="obligation", err=ob["err"]), False)
    res.rule = ("U8 (subprocess): for every scalar rule (all validity periods, one covering date each) the REAL make_vectorizable(func, 'numpy') is applied, "
                "the array form is called on arrays of generated inputs and every position is compared with the scalar rule (a raise at rewrite or "
                "call time is loud and allowed); 14 hand-written functions of and just outside the documented style go through the same rewriter. "
                "distinct = rules whose array form could be built and called.")


def replay(payload):
    print(json.dumps(payload["payload"], indent=1, default=str, ensure_ascii=False)[:4000])
    return 1
