"""C03 — each column value equals the scalar rule applied to that row's inputs; dtype = declared type."""
from __future__ import annotations

import importlib
import json
import math

import engine
import impl
import metam
import popgen

NP_KIND = {"float": "f", "int": "i", "bool": "b"}


def rule_meta(rules):
    return {(m["module"], m["name"]): m for m in rules["functions"]}


def engine_rows(ctx, res, stats):
    impl.setup()
    import numpy as np

    rules = ctx.load_rules()
    meta = rule_meta(rules)
    rnd = ctx.rng("c03")
    ds = metam.dag_dates()
    dates = [impl.ordinal(x) for x in (["2024-01-01", "2021-07-01", "2019-01-01"] if ctx.tier == "quick" else
                                        ["2024-01-01", "2021-07-01", "2019-01-01", "2015-01-01", "2023-07-01", "2017-07-01", "2022-01-01", "2026-01-01"])]
    for o in [d for d in dates if d in ds]:
        d = metam.dag_for(o)
        year = int(impl.iso(o)[:4])
        nodes = metam.default_nodes(d)
        params, funcs = impl.env(o)
        for rep in range(2 if ctx.tier == "quick" else 6):
            pop = popgen.population(rnd, year, 10 if ctx.tier == "quick" else 16, id_style="sparse")
            # put a row that takes the "nothing applies" branches first: a child / zero-income person
            pop.sort(key=lambda p: (p["bruttolohn_m"] != 0.0, not p["kind"], p["alter"]))
            if rep % 2 == 1:
                pop.reverse()
            df = popgen.to_frame(pop)
            dbg = rep % 2 == 1      # debug mode: the result also shows each row's inputs; the rules are re-applied to the inputs SHOWN in the row
            try:
                out, _ = engine.simulate(df, o, targets=nodes, rounding=False, debug=dbg)
            except engine.ResultShapeError as ex:
                res.add_violation("shape", f"on {impl.iso(o)} (debug={dbg}) {ex}", dict(kind="shape", date=impl.iso(o), debug=dbg, error=str(ex)), True)
                continue
            except Exception as ex:  # noqa: BLE001
                stats["skipped"][f"{impl.iso(o)}#{rep}"] = f"{type(ex).__name__}: {str(ex)[:100]}"
                continue
            cols = {c: df[c].to_numpy() for c in df.columns}
            if dbg:
                stats["debug_runs"] = stats.get("debug_runs", 0) + 1
                for c in df.columns:
                    if c in out.columns and c not in nodes:
                        a, b = out[c].to_numpy(), df[c].to_numpy()
                        if a.dtype != b.dtype or not metam.col_equal(a, b):
                            res.add_violation(f"echo:{c}", f"debug mode on {impl.iso(o)}: the input column {c} shown in the result differs from the input "
                                              f"(dtype {a.dtype} vs {b.dtype}; {metam.first_diff(a, b, list(df['p_id'])) if a.dtype == b.dtype else ''})",
                                              dict(kind="echo", date=impl.iso(o), column=c, shown_dtype=str(a.dtype), input_dtype=str(b.dtype)), True)
                            break
            cols.update({c: out[c].to_numpy() for c in out.columns})
            for n in nodes:
                nd = d["nodes"][n]
                k = nd["kind"]
                if k["k"] != "rule" or k["skipvec"]:
                    continue
                m = meta.get((k["module"], k["pyname"]))
                if m is None or m["ret"] not in NP_KIND:
                    continue
                scalar_args = all(ann in ("int", "float", "bool") for a, ann in zip(m["args"], m["arg_annots"]) if not a.endswith("_params"))
                f = getattr(importlib.import_module(k["module"]), k["pyname"])
                col = out[n].to_numpy()
                stats["rule_columns"] += 1
                # dtype follows the declared type
                if col.dtype.kind != NP_KIND[m["ret"]]:
                    stats["dtype_mismatches"] += 1
                    first = {a: metam._py(cols[a][0]) for a in nd["args"] if a in cols}
                    res.add_violation(f"dtype:{n}", f"column {n} on {impl.iso(o)} has dtype {col.dtype} but the rule {k['pyname']} declares {m['ret']} "
                                      f"(first row inputs {first})",
                                      dict(kind="dtype", date=impl.iso(o), node=n, rule=k["pyname"], declared=m["ret"], dtype=str(col.dtype),
                                           first_row_inputs=first, p_id_first_row=int(df['p_id'].iloc[0])), True)
                if any(a not in cols for a in nd["args"]) or not scalar_args:
                    continue
                for i in range(len(df)):
                    kw = {a: metam._py(cols[a][i]) for a in nd["args"]}
                    for g in nd["params"]:
                        kw[f"{g}_params"] = params[g]
                    try:
                        raw = f(**kw)
                    except Exception:  # noqa: BLE001
                        continue
                    stats["cells"] += 1
                    cell = metam._py(col[i])
                    rawv = metam._py(raw)
                    same = (cell == rawv) or (isinstance(cell, float) and isinstance(rawv, (int, float)) and
                                              (cell == float(rawv) or (math.isnan(cell) and rawv != rawv)))
                    if not same:
                        stats["cell_mismatches"] += 1
                        if not any(v["key"] == f"cell:{n}" for v in res.violations):
                            res.add_violation(f"cell:{n}", f"column {n} on {impl.iso(o)}, row {i} (p_id {int(df['p_id'].iloc[i])}): column holds {cell!r}, "
                                              f"the rule {k['pyname']} returns {rawv!r} for that row's inputs (column dtype {col.dtype})",
                                              dict(kind="cell", date=impl.iso(o), node=n, rule=k["pyname"], row=i, inputs={a: v for a, v in kw.items() if not a.endswith('_params')},
                                                   column_value=cell, rule_value=rawv, dtype=str(col.dtype)), True)
            if len(res.samples) < 3:
                res.samples.append(dict(unit="engine rows", date=impl.iso(o), rows=len(df), first_row=dict(alter=int(df['alter'].iloc[0]), bruttolohn_m=float(df['bruttolohn_m'].iloc[0]))))


def declared_vs_observed(ctx, res, stats):
    """scalar calls of every rule: the Python type of each result must cast losslessly to the declared type"""
    import u1_rules as U

    impl.setup()
    rules = ctx.load_rules()
    rnd = ctx.rng("c03types")
    dates = [impl.ordinal(x) for x in ["2024-01-01", "2019-01-01", "2015-01-01", "2010-01-01", "2005-06-01", "2001-03-01", "1995-01-01", "2022-07-01"]]
    per = 25 if ctx.tier == "quick" else 120
    seen = set()
    for dte in dates:
        try:
            params, _ = impl.env(dte)
        except Exception:  # noqa: BLE001
            continue
        leaves = {}
        for g, pg in params.items():
            acc = []
            U.numeric_leaves(pg, acc)
            leaves[g] = acc
        for m in rules["functions"]:
            if not (m["start"] <= dte <= m["end"]) or m["skipvec"] or m["ret"] not in NP_KIND:
                continue
            groups = [a[:-7] for a in m["args"] if a.endswith("_params")]
            if any(g not in params for g in groups):
                continue
            if any((not a.endswith("_params")) and ann not in ("int", "float", "bool") for a, ann in zip(m["args"], m["arg_annots"])):
                continue
            f = getattr(importlib.import_module(m["module"]), m["name"])
            lv = [x for g in groups for x in leaves.get(g, [])]
            seen.add(m["name"])
            for _ in range(per):
                kw = {}
                for a, ann in zip(m["args"], m["arg_annots"]):
                    kw[a] = params[a[:-7]] if a.endswith("_params") else U.gen_value(rnd, a, ann, lv)
                try:
                    out = f(**kw)
                except Exception:  # noqa: BLE001
                    continue
                stats["scalar_calls"] += 1
                t = U.pytype(out)
                ok = (m["ret"] == "float" and t in ("float", "int", "bool")) or (m["ret"] == "int" and t in ("int", "bool")) or (m["ret"] == "bool" and t == "bool")
                if not ok and m["ret"] == "int" and t == "float" and float(out) == int(out):
                    continue        # value-preserving; a fractional witness is required for a violation
                if not ok:
                    key = f"declared:{m['name']}"
                    if not any(v["key"] == key for v in res.violations):
                        res.add_violation(key, f"rule {m['name']} declares -> {m['ret']} but returns the {t} {out!r} on {impl.iso(dte)} for "
                                          f"{ {k: v for k, v in kw.items() if not k.endswith('_params')} }: a column of the declared type cannot hold it",
                                          dict(kind="declared", rule=m["name"], declared=m["ret"], returned_type=t, returned=repr(out), date=impl.iso(dte),
                                               inputs={k: v for k, v in kw.items() if not k.endswith("_params")}), True)
    stats["rules_called"] = len(seen)


def run(ctx, res):
    stats = dict(rule_columns=0, cells=0, cell_mismatches=0, dtype_mismatches=0, scalar_calls=0, skipped={})
    engine_rows(ctx, res, stats)
    declared_vs_observed(ctx, res, stats)
    res.evaluations += stats["cells"] + stats["scalar_calls"]
    res.distinct += stats["rule_columns"] + stats.get("rules_called", 0)
    res.extra["engine"] = stats
    res.rule = ("(i) per date and population (first row a zero-income child, and the reverse order): every node of the default targets' graph "
                "is computed with rounding off; for every scalar rule column the dtype must be the declared one and EVERY cell must equal "
                "the raw Python rule called on that row's inputs (taken from the same run) — exact equality; every second population is run in debug mode: the rules are then re-applied to the inputs SHOWN in the result row, and the shown inputs must equal the inputs (values and dtype); all tables carry permuted / offset index labels and a result without one row per input row is a violation; (ii) every rule is called as a "
                "scalar function on generated inputs at eight dates and the Python type of each result must cast losslessly to the declared "
                "return type. distinct = rule columns + rules called.")


def replay(payload):
    print(json.dumps(payload["payload"], indent=1, default=str, ensure_ascii=False)[:6000])
    return 1
