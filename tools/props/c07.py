"""C07 — the policy environment for a date is exactly the law in force that day."""
from __future__ import annotations

import concurrent.futures as cf
import datetime
import json

import common as C
import coqrun
import impl
import modelio as M

PRELUDE = """From GettsimModel Require Import ChkC07.
From GettsimGen Require Import GenYaml GenConfig GenRegistry.
Open Scope Z_scope.
Definition PA := params_at yaml_groups internal_params_groups.
Definition FA := functions_at registry.
"""


def obligations(rules, tier):
    cls = rules["config"]["date_classes"]
    n = len(cls)
    obls = []
    # exhaustive day sweep, sharded by consecutive class starts (shards overlap in one class start)
    # balance shards by number of days
    # shards of roughly equal cost (later environments are bigger: weight grows with the date)
    span = cls[-1] - cls[0]
    wsum = [0.0]
    for a, b in zip(cls, cls[1:]):
        wsum.append(wsum[-1] + (b - a) * (1.0 + 3.0 * (a - cls[0]) / span))
    k = 32
    bounds = [0]
    for j in range(1, k):
        target = wsum[-1] * j / k
        idx = min(range(n), key=lambda i: abs(wsum[i] - target))
        if idx > bounds[-1]:
            bounds.append(idx)
    if bounds[-1] != n - 1:
        bounds.append(n - 1)
    for a, b in zip(bounds, bounds[1:]):
        part = cls[a:b + 1]
        lst = "[" + "; ".join(str(x) for x in part) + "]"
        obls.append(dict(
            name=f"c07_days_{part[0]}_{part[-1]}",
            stmt=f"all_classes_const PA FA {lst} = true",
            proof="vm_cast_no_check (@eq_refl bool true).",
            what=f"every calendar day from {impl.iso(part[0])} to {impl.iso(part[-1] - 1)} has the parameters (up to the date "
                 f"stamp) and the function selection of the first day of its date class ({len(part) - 1} classes, "
                 f"{part[-1] - part[0]} days, exhaustive)",
            diag=f"String.concat \";\" (map show_z (classes_diag PA FA {lst}))"))
    cl = "date_classes"
    for i in range(4):
        obls.append(dict(
            name=f"c07_unique_{i}",
            stmt=f"forallb (unique_at registry) (map (fun k => nth k {cl} 0) (map (fun j => (4 * j + {i})%nat) (seq 0 {(n + 3) // 4}))) = true",
            proof="vm_cast_no_check (@eq_refl bool true).",
            what="at most one active implementation per column name on the first day of every date class "
                 f"(shard {i} of 4; lifted to every day by the sweep: the function selection is constant within a class)",
            diag=f"unique_diag registry (map (fun k => nth k {cl} 0) (map (fun j => (4 * j + {i})%nat) (seq 0 {(n + 3) // 4})))"))
    lo = datetime.date(1979, 1, 1).toordinal()
    hi = cls[-1] + 800
    step = (hi - lo) // 4 + 1
    for i in range(4):
        a, b = lo + i * step, min(hi, lo + (i + 1) * step)
        obls.append(dict(
            name=f"c07_civil_{i}",
            stmt=f"civil_ok_range {a} {b} = true",
            proof="vm_cast_no_check (@eq_refl bool true).",
            what=f"civil date <-> ordinal conversion round-trips on every day {impl.iso(a)} .. {impl.iso(b - 1)}"))
    return obls


# ---------------------------------------------------------------------------
# U5


def model_env(dates, tag):
    exprs = []
    for o in dates:
        exprs.append(
            f"json_res (match PA {C.cz(o)} with "
            "Ok p => Ok (VDict (map (fun gv => (KStr (fst gv), snd gv)) p)) | Err e => Err e end)")
        exprs.append(f"json_val (VDict (map (fun nf => (KStr (fst nf), VStr (snd nf))) (FA {C.cz(o)})))")
    res, _ = M.eval_json(f"U5_{tag}", PRELUDE, exprs, timeout=1500, workdir=C.WORK / "u5")
    return {o: (res[2 * i], res[2 * i + 1]) for i, o in enumerate(dates)}


def u5_dates(tier, classes, rnd):
    cls = sorted(classes)
    ds = set(cls) if tier == "thorough" else set(rnd.sample(cls, 40))
    ends = [c - 1 for c in cls[1:]]
    leap = []
    for y in range(datetime.date.fromordinal(cls[0]).year, datetime.date.fromordinal(cls[-1]).year + 1):
        if (y % 4 == 0 and y % 100 != 0) or y % 400 == 0:
            leap += [datetime.date(y, 2, 29).toordinal(), datetime.date(y, 3, 1).toordinal()]
    if tier == "thorough":
        ds.update(ends)
        ds.update(c + 1 for c in cls)
        ds.update(leap)
        ds.update(rnd.randrange(cls[0], cls[-1]) for _ in range(200))
    else:
        ds.update(rnd.sample(ends, 12))
        ds.update(rnd.sample(leap, 6))
        ds.update(rnd.randrange(cls[0], cls[-1]) for _ in range(10))
    return sorted(d for d in ds if cls[0] <= d <= cls[-1])


def compare_env(dates, source_hash, only_rounding=False):
    implv = impl.all_env_canon(dates, source_hash)
    shards = [dates[i::8] for i in range(8) if dates[i::8]]
    model = {}
    with cf.ThreadPoolExecutor(max_workers=8) as ex:
        for part in ex.map(lambda a: model_env(a[1], str(a[0])), list(enumerate(shards))):
            model.update(part)
    diffs = []
    n_leaves = 0
    both_fail = 0
    for o in dates:
        ip, ifun = implv[o]
        mp_, mfun = model[o]
        ds = impl.iso(o)
        if isinstance(ip, tuple) and ip and ip[0] == "err":
            if isinstance(mp_, M.ModelErr):
                both_fail += 1
            else:
                diffs.append(dict(date=ds, path="<whole environment>", impl=f"raises {ip[1]}: {ip[2]}", model="ok"))
            continue
        if isinstance(mp_, M.ModelErr):
            diffs.append(dict(date=ds, path="<whole environment>", impl="ok", model=repr(mp_)))
            continue
        for path, a, b in M.diff(ip, mp_, "params", limit=60):
            if b == "''" and isinstance(a, str):
                continue          # prose (name/description/reference/note) is replaced by "" in the model
            diffs.append(dict(date=ds, path=path, impl=a, model=b))
        for path, a, b in M.diff(ifun, mfun, "functions"):
            diffs.append(dict(date=ds, path=path, impl=a, model=b))
        n_leaves += count_leaves(ip)
    return dict(dates=len(dates), leaves=n_leaves, both_raise=both_fail, diffs=diffs)


def count_leaves(v):
    if isinstance(v, dict):
        return sum(count_leaves(x) for x in v.values())
    if isinstance(v, list):
        return sum(count_leaves(x) for x in v)
    return 1


# ---------------------------------------------------------------------------
# independent oracle for the search: the law in force read directly off the raw YAML


def yaml_latest(group, param, o):
    raw = impl.raw_yaml(group).get(param)
    if not isinstance(raw, dict):
        return None
    ds = sorted(d for d in raw if isinstance(d, datetime.date) and d.toordinal() <= o)
    return (ds[-1], raw[ds[-1]]) if ds else None


def impl_property_probe(rules, rnd, n_dates):
    """direct test of the property on the implementation (no model): scalar parameters equal the latest YAML
    entry; the environment is constant between change dates; one function per name with date inside interval"""
    import numpy as np

    from _gettsim.policy_environment import load_functions_for_date

    cls = rules["config"]["date_classes"]
    bad = []
    n = 0
    for _ in range(n_dates):
        i = rnd.randrange(len(cls) - 1)
        c, c2 = cls[i], cls[i + 1]
        if c2 - c < 2:
            continue
        d = rnd.randrange(c, c2)
        (p1, _f1), (p2, _f2) = impl.env(c), impl.env(d)
        a, b = M.canon_py(p1), M.canon_py(p2)
        for g in a:
            a[g].pop("datum", None)
            b.get(g, {}).pop("datum", None)
        df = M.diff(a, _defloat(b), "params")
        n += 1
        if df:
            bad.append(dict(kind="environment differs within a date class", class_start=impl.iso(c), day=impl.iso(d), where=df[0][0],
                            at_start=df[0][1], at_day=df[0][2]))
        # scalar parameters = most recent entry
        for g in rules["config"]["INTERNAL_PARAMS_GROUPS"]:
            raw = impl.raw_yaml(g)
            for param, ent in raw.items():
                if param == "rounding" or not isinstance(ent, dict):
                    continue
                le = yaml_latest(g, param, d)
                if le is None:
                    continue
                e = le[1]
                if isinstance(e, dict) and e.get("scalar") is not None and "deviation_from" not in e:
                    want = e["scalar"]
                    want = float("inf") if want == "inf" else want
                    got = p2[g].get(param, "<absent>")
                    n += 1
                    if isinstance(got, (dict, list, np.ndarray)) or got != want:
                        bad.append(dict(kind="scalar parameter is not the most recent entry", date=impl.iso(d), group=g, param=param,
                                        entry_date=str(le[0]), yaml=want, environment=repr(got)[:80]))
        fs = load_functions_for_date(datetime.date.fromordinal(d))
        for name, f in fs.items():
            info = getattr(f, "__info__", None)
            if info and not (info["start_date"].toordinal() <= d <= info["end_date"].toordinal()):
                bad.append(dict(kind="function active outside its validity interval", date=impl.iso(d), name=name, function=f.__name__))
            n += 1
    return n, bad


def _defloat(v):
    """model-side shape for M.diff: ('f', float) -> ('f', Fraction-like) is handled by close(); keep as is"""
    from fractions import Fraction

    if isinstance(v, dict):
        return {k: _defloat(x) for k, x in v.items()}
    if isinstance(v, list):
        return [_defloat(x) for x in v]
    if isinstance(v, tuple) and v and v[0] == "f":
        x = v[1]
        if x != x or x in (float("inf"), float("-inf")):
            return ("f", x)
        return ("f", Fraction(x))
    return v


def run(ctx, res):
    rules = ctx.load_rules()
    impl.setup()
    obls = obligations(rules, ctx.tier)
    out = coqrun.prove("C07", PRELUDE + "From GettsimModel Require Import Corr.\n", obls, shards=len(obls), timeout=1700)
    res.obligations += out
    rnd = ctx.rng("c07")
    cls = sorted(rules["config"]["date_classes"])
    # model == implementation on the first day of (quick: 60 sampled, thorough: all) date classes ...
    starts = cls if ctx.tier == "thorough" else sorted(rnd.sample(cls, 60))
    r = compare_env(starts, ctx.build.get("hash"))
    res.evaluations += r["dates"]
    res.distinct += r["dates"]
    res.extra["u5"] = dict(dates=r["dates"], leaves_compared=r["leaves"], both_raise=r["both_raise"], differences=len(r["diffs"]),
                           first=impl.iso(starts[0]), last=impl.iso(starts[-1]))
    res.samples += [dict(unit="U5", date=impl.iso(o)) for o in starts[:3]]
    # ... and the implementation itself is constant within every class: last day, leap days, random days vs first day
    import bisect

    probe = set(c - 1 for c in cls[1:])
    for y in range(1980, int(impl.iso(cls[-1])[:4]) + 1):
        if (y % 4 == 0 and y % 100 != 0) or y % 400 == 0:
            probe.update([datetime.date(y, 2, 29).toordinal(), datetime.date(y, 3, 1).toordinal(), datetime.date(y, 6, 30).toordinal(), datetime.date(y, 12, 31).toordinal()])
    probe.update(rnd.randrange(cls[0], cls[-1]) for _ in range(20 if ctx.tier == "quick" else 300))
    probe = sorted(d for d in probe if cls[0] <= d <= cls[-1])
    envs = impl.all_env_canon(sorted(set(probe) | set(cls)), ctx.build.get("hash"))
    within = 0
    for dday in probe:
        c = cls[bisect.bisect_right(cls, dday) - 1]
        if c == dday:
            continue
        (pa, fa), (pb, fb) = envs[c], envs[dday]
        within += 1
        if isinstance(pa, tuple) or isinstance(pb, tuple):
            if isinstance(pa, tuple) != isinstance(pb, tuple):
                res.add_violation(f"within-class:raises:{impl.iso(dday)}", f"set_up_policy_environment works on {impl.iso(c)} xor {impl.iso(dday)} (same date class)",
                                  dict(kind="within-class", class_start=impl.iso(c), day=impl.iso(dday)), True)
            continue
        a = {g: {k: v for k, v in d_.items() if k != "datum"} for g, d_ in pa.items()}
        b = {g: {k: v for k, v in d_.items() if k != "datum"} for g, d_ in pb.items()}
        if a != b or fa != fb:
            where = next((f"{g}.{k}" for g in a for k in set(a[g]) | set(b.get(g, {})) if a[g].get(k) != b.get(g, {}).get(k)), "functions")
            res.add_violation(f"within-class:{where}", f"the environment of {impl.iso(dday)} differs from that of {impl.iso(c)} although no parameter or function changes in between: {where} "
                              f"({str(a.get(where.split('.')[0], {}).get(where.split('.')[-1]))[:80]} vs {str(b.get(where.split('.')[0], {}).get(where.split('.')[-1]))[:80]})",
                              dict(kind="within-class", class_start=impl.iso(c), day=impl.iso(dday), where=where), True)
    res.evaluations += within
    res.extra["within_class_days_compared_on_implementation"] = within
    n, bad = impl_property_probe(rules, rnd, 12 if ctx.tier == "quick" else 80)
    res.evaluations += n
    res.extra["direct_probe_checks"] = n
    res.rule = ("U5: set_up_policy_environment(d) of the implementation vs params_at/functions_at of the model on the regenerated "
                "YAML/registry, every leaf compared (floats 1e-9), on the first day of 60 sampled date classes (thorough: all). Constancy of the "
                "IMPLEMENTATION within classes: the LAST day of every class, every 29 Feb / 1 Mar / 30 Jun / 31 Dec of leap years and random "
                "days vs the first day of their class (everything but the date stamp must be equal). Direct probe: "
                "on random days inside classes the implementation's environment equals that of the class start, scalar parameters "
                "equal the latest YAML entry, active functions lie inside their validity interval. distinct = distinct dates.")
    for b in bad[:5]:
        res.add_violation(f"probe:{b['kind']}:{b.get('group', '')}.{b.get('param', b.get('name', b.get('where', '')))}",
                          f"{b['kind']}: {json.dumps(b, default=str)[:300]}", b, True)
    failing_obl = [o for o in out if not o["ok"]]
    # model/implementation differences: is the IMPLEMENTATION wrong w.r.t. the raw YAML?
    reported = 0
    for d in r["diffs"]:
        if reported >= 5:
            break
        key = f"u5:{d['path']}"
        if any(v["key"] == key for v in res.violations):
            continue
        want = yaml_oracle(d["path"], d["date"])
        got = impl_leaf(d["path"], d["date"])
        if want is not None and isinstance(got, (int, float)) and not isinstance(got, bool) and abs(float(got) - float(want)) > 1e-9 * max(1.0, abs(float(want))):
            res.add_violation(key, f"on {d['date']} {d['path']} = {got} in the implementation's environment, but the law in force (raw YAML, evaluated "
                              f"independently) gives {float(want)}", dict(kind="u5", **d, yaml_value=str(want), implementation_value=got), True)
        else:
            res.add_violation(key, f"correspondence U5 differs on {d['date']} at {d['path']}: implementation {d['impl']}, model {d['model']}",
                              dict(kind="u5", **d), False)
        reported += 1
    for o in failing_obl:
        res.add_violation(f"obligation:{o['name'].split('_')[1]}", f"obligation {o['name']} no longer checks: {(o.get('diag') or o['err'])[:300]}",
                          dict(kind="obligation", obligation=o["name"], what=o["what"], diag=o.get("diag"), err=o.get("err")), False)


DERIVED_FROM_YEAR = {("eink_st_abzuege", "einführungsfaktor_vorsorgeaufw_alter_ab_2005"): "einführungsfaktor",
                     ("eink_st_abzuege", "vorsorgepauschale_rentenv_anteil"): "vorsorgepauschale_rentenv_anteil"}


def _path_keys(path):
    import re

    return re.findall(r"\['([^']+)'\]", path)


def impl_leaf(path, date):
    """the implementation's value at params[...][...] on that date"""
    try:
        v, _ = impl.env(impl.ordinal(date))
        for k in _path_keys(path):
            v = v[k]
        return v
    except Exception:  # noqa: BLE001
        return None


def yaml_oracle(path, date):
    """independent reading of the raw YAML: the two parameters derived from the year of the date are the value of their
    piecewise-linear schedule (latest entry on or before the date) at that year; a plain scalar parameter is the latest
    entry's scalar"""
    import datetime
    from fractions import Fraction

    ks = _path_keys(path)
    if len(ks) != 2:
        return None
    g, k = ks
    o = impl.ordinal(date)
    try:
        if (g, k) in DERIVED_FROM_YEAR:
            import props.c18 as c18

            year = datetime.date.fromordinal(o).year
            return c18.spec_eval_yaml(g, DERIVED_FROM_YEAR[(g, k)], o, Fraction(year)) if year >= 2005 else None
        raw = impl.raw_yaml(g).get(k)
        if not isinstance(raw, dict):
            return None
        dates = sorted(dd for dd in raw if isinstance(dd, datetime.date) and dd.toordinal() <= o)
        if not dates:
            return None
        ent = raw[dates[-1]]
        if isinstance(ent, dict) and set(ent) - {"note", "reference"} <= {"scalar"} and isinstance(ent.get("scalar"), (int, float)) and not isinstance(ent.get("scalar"), bool):
            return Fraction(repr(float(ent["scalar"])))
    except Exception:  # noqa: BLE001
        return None
    return None


def replay(payload):
    impl.setup()
    print(json.dumps(payload["payload"], indent=1, default=str, ensure_ascii=False))
    return 1
