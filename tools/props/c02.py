"""C02 — unrelated households do not influence each other; relabelling ids changes only the labels."""
from __future__ import annotations

import json

import engine
import impl
import metam
import popgen

POINTERS = ["p_id_elternteil_1", "p_id_elternteil_2", "p_id_kindergeld_empf", "p_id_erziehgeld_empf", "p_id_ehepartner",
            "p_id_einstandspartner", "p_id_betreuungsk_träger"]


def closed_population(rnd, year, n_hh, id_offset, hh_offset, style, tpl=None):
    """a population closed under pointers (no parent in another population), ids from disjoint ranges"""
    tpl = tpl or [t for t in popgen.TEMPLATES]
    pop = popgen.population(rnd, year, n_hh, templates=tpl, id_style=style)
    ids = {p["p_id"] for p in pop}
    for p in pop:
        for k in POINTERS:
            if p[k] >= 0 and p[k] not in ids:
                p[k] = -1
    for p in pop:
        p["p_id"] += id_offset
        p["hh_id"] += hh_offset
        for k in POINTERS:
            if p[k] >= 0:
                p[k] += id_offset
    return pop


def compare(a_out, b_out, pids_a, nodes, what, o, res, stats, exact=True):
    import numpy as np

    b = b_out.copy()
    for t in nodes:
        x = a_out[t].to_numpy()
        y = b[t].to_numpy()
        stats["columns_compared"] += 1
        if metam.is_id(t):
            ok = metam.same_partition(x, y)
        else:
            ok = x.dtype == y.dtype and (metam.col_equal(x, y) if exact else metam.col_close(x, y))
            if not ok and x.dtype == y.dtype and metam.col_close(x, y):
                stats["float_noise_only"] += 1
                ok = True
        if not ok:
            w = metam.first_diff(x, y, pids_a)
            res.add_violation(f"{what}:{t}", f"{t} on {impl.iso(o)}: {what} changes a result: {w} (dtypes {x.dtype}/{y.dtype})",
                              dict(kind=what, date=impl.iso(o), column=t, witness=w, dtypes=[str(x.dtype), str(y.dtype)]), True)


PRELUDE = "From GettsimModel Require Import Engine Dag TableSep.\nFrom GettsimGen Require Import GenRules GenDag GenConfig.\n"


def obligations():
    return [dict(
        name="c02_graph_ready_for_separability_theorem",
        stmt="forallb (fun od => let S := filter (fun n => match d_kind n with KGrouping => false | _ => negb (String.eqb (d_name n) \"geburtsdatum\") end) "
             "(subgraph (snd od) default_targets) in forallb (sep_ready_b all_fundefs) S && keys_fresh_b S) "
             "(filter (fun od => Z.leb 735599 (fst od)) dags) = true",
        proof="vm_cast_no_check (@eq_refl bool true).",
        what="premises of C02_engine_separable (TableSep.run_separable_b) on every dumped graph >= 2015: every node of the default targets' graph other "
             "than the six id builders and the date-valued rule geburtsdatum is a rule with a declared result dtype, a unit conversion, a group "
             "reduction, a join or a sum by person pointer, and no node bears the name of a key column (group id, p_id, foreign / primary key)")]


def run(ctx, res):
    impl.setup()
    import pandas as pd
    import coqrun

    res.obligations += coqrun.prove("C02", PRELUDE + "Open Scope Z_scope.\n", obligations(), shards=1, timeout=1500)
    for ob in res.obligations:
        if not ob["ok"] and ob["name"].startswith("c02_"):
            res.add_violation(f"obligation:{ob['name']}", f"obligation {ob['name']} no longer checks: {ob['err'][-300:]}",
                              dict(kind="obligation", obligation=ob["name"], err=ob["err"]), False)

    rnd = ctx.rng("c02")
    ds = metam.dag_dates()
    dates = [impl.ordinal(x) for x in (["2024-01-01", "2019-01-01"] if ctx.tier == "quick" else
                                        ["2024-01-01", "2019-01-01", "2015-01-01", "2021-07-01", "2023-07-01", "2017-07-01", "2010-01-01"])]
    stats = dict(pairs=0, joint_runs=0, relabellings=0, columns_compared=0, float_noise_only=0, skipped={})
    for o in [x for x in dates if x in ds]:
        d = metam.dag_for(o)
        year = int(impl.iso(o)[:4])
        nodes = metam.default_nodes(d)
        for rep in range(2 if ctx.tier == "quick" else 8):
            A = closed_population(rnd, year, rnd.randint(2, 6), 0, 0, "sparse",
                                  tpl=["pensioners", "pensioners", "single_pensioner", "married", "couple_kids"] if rep == 0 else None)
            if rep == 0:
                # make the pensioners of A entitled to a Grundrente supplement with income crediting (married and single)
                for p in A:
                    if not p["kind"] and p["alter"] >= 60:
                        p.update(rentner=True, jahr_renteneintr=year - max(0, p["alter"] - 65), entgeltp_west=rnd.choice([10.0, 20.0]), entgeltp_ost=0.0,
                                 grundr_zeiten=rnd.choice([400, 420, 480]), grundr_bew_zeiten=rnd.choice([400, 420]), grundr_entgeltp=rnd.choice([8.0, 12.0]),
                                 priv_rente_m=rnd.choice([0.0, 900.0, 1500.0]), bruttolohn_m=0.0)
            B = closed_population(rnd, year, rnd.randint(2, 8), 100000, 5000, rnd.choice(["sparse", "unsorted"]))
            dfA, dfB = popgen.to_frame(A), popgen.to_frame(B)
            try:
                outA, _ = engine.simulate(dfA, o, targets=nodes)
            except Exception as ex:  # noqa: BLE001
                stats["skipped"][f"{impl.iso(o)}#{rep}"] = f"{type(ex).__name__}: {str(ex)[:100]}"
                continue
            stats["pairs"] += 1
            pidsA = list(dfA["p_id"])
            for order in ("A+B", "B+A", "interleaved"):
                if order == "A+B":
                    joint = pd.concat([dfA, dfB], ignore_index=True)
                elif order == "B+A":
                    joint = pd.concat([dfB, dfA], ignore_index=True)
                else:
                    joint = pd.concat([dfA, dfB], ignore_index=True).sample(frac=1.0, random_state=rnd.randrange(10**6)).reset_index(drop=True)
                try:
                    outJ, _ = engine.simulate(joint, o, targets=nodes)
                except Exception as ex:  # noqa: BLE001
                    res.add_violation(f"joint-raises:{type(ex).__name__}", f"A simulates alone but A together with B ({order}) fails on {impl.iso(o)}: {type(ex).__name__}: {str(ex)[:200]}",
                                      dict(kind="joint-raises", date=impl.iso(o), order=order, error=str(ex)[:500]), True)
                    continue
                stats["joint_runs"] += 1
                outJ = outJ.copy()
                outJ["__p"] = joint["p_id"].to_numpy()
                sub = outJ.set_index("__p").loc[pidsA]
                compare(outA, sub, pidsA, nodes, f"simulating together with other households ({order})", o, res, stats, exact=False)
            # relabelling
            ids = sorted({p["p_id"] for p in A})
            hhs = sorted({p["hh_id"] for p in A})
            new_ids = rnd.sample(range(0, 50 * len(ids) + 100), len(ids))
            new_hh = rnd.sample(range(0, 50 * len(hhs) + 100), len(hhs))
            rho = dict(zip(ids, new_ids))
            sig = dict(zip(hhs, new_hh))
            A2 = []
            for p in A:
                q = dict(p)
                q["p_id"] = rho[p["p_id"]]
                q["hh_id"] = sig[p["hh_id"]]
                for k in POINTERS:
                    q[k] = rho[p[k]] if p[k] >= 0 else -1
                A2.append(q)
            dfA2 = popgen.to_frame(A2)
            try:
                outA2, _ = engine.simulate(dfA2, o, targets=nodes)
                stats["relabellings"] += 1
                compare(outA, outA2, pidsA, nodes, "relabelling p_id / hh_id", o, res, stats, exact=False)
            except Exception as ex:  # noqa: BLE001
                res.add_violation(f"relabel-raises:{type(ex).__name__}", f"relabelled population fails on {impl.iso(o)}: {type(ex).__name__}: {str(ex)[:200]}",
                                  dict(kind="relabel-raises", date=impl.iso(o), error=str(ex)[:500]), True)
            # relabellings that give the label 0 to a person somebody points to (a spouse, a parent, a benefit recipient)
            pointed = sorted({p[k] for p in A for k in POINTERS if p[k] >= 0})
            spouses = sorted({p["p_id_ehepartner"] for p in A if p["p_id_ehepartner"] >= 0})
            for target0 in (rnd.sample(spouses, min(len(spouses), 2)) + rnd.sample(pointed, min(len(pointed), 2 if ctx.tier == "quick" else 6))):
                rho0 = {i: i + 1 for i in ids}
                rho0[target0] = 0
                A3 = []
                for p in A:
                    q = dict(p)
                    q["p_id"] = rho0[p["p_id"]]
                    for k in POINTERS:
                        q[k] = rho0[p[k]] if p[k] >= 0 else -1
                    A3.append(q)
                try:
                    outA3, _ = engine.simulate(popgen.to_frame(A3), o, targets=nodes)
                    stats["relabellings"] += 1
                    stats["zero_label_relabellings"] = stats.get("zero_label_relabellings", 0) + 1
                    compare(outA, outA3, pidsA, nodes, f"relabelling p_id (person {target0} gets the label 0)", o, res, stats, exact=False)
                except Exception as ex:  # noqa: BLE001
                    res.add_violation(f"relabel-raises:{type(ex).__name__}", f"relabelled population fails on {impl.iso(o)}: {type(ex).__name__}: {str(ex)[:200]}",
                                      dict(kind="relabel-raises", date=impl.iso(o), error=str(ex)[:500]), True)
            if len(res.samples) < 3:
                res.samples.append(dict(unit="A vs A+B", date=impl.iso(o), rows_A=len(dfA), rows_B=len(dfB), p_ids_A=pidsA[:8], first_p_ids_B=list(dfB["p_id"])[:5]))
    # a LARGE other population: many self-sufficient children under 25 (each forms an own needs unit numbered by a counter) before A;
    # A = a single parent with such a child, then an unrelated single: ids built from counters must not run into the next family
    for o in [x for x in dates[:1] if x in ds]:
        d = metam.dag_for(o)
        year = int(impl.iso(o)[:4])
        nodes = metam.default_nodes(d)
        A = closed_population(rnd, year, 1, 0, 0, "dense", tpl=["self_sufficient_child"]) + closed_population(rnd, year, 1, 50, 50, "dense", tpl=["single"])
        dfA = popgen.to_frame(A)
        try:
            outA, _ = engine.simulate(dfA, o, targets=nodes)
        except Exception as ex:  # noqa: BLE001
            stats["skipped"][f"{impl.iso(o)}#big"] = f"{type(ex).__name__}: {str(ex)[:100]}"
            continue
        pidsA = list(dfA["p_id"])
        for want in ((99, 100, 101) if ctx.tier == "quick" else (98, 99, 100, 101, 199, 200)):
            B = []
            k = 0
            while sum(1 for q in B if q["alter"] < 25 and q["eigenbedarf_gedeckt"]) < want:
                B += closed_population(rnd, year, 1, 200000 + 10 * k, 9000 + k, "dense", tpl=["self_sufficient_child"])
                k += 1
            joint = pd.concat([popgen.to_frame(B), dfA], ignore_index=True)
            try:
                outJ, _ = engine.simulate(joint, o, targets=nodes)
            except Exception as ex:  # noqa: BLE001
                res.add_violation(f"joint-raises:{type(ex).__name__}", f"A simulates alone but A after {want} other self-sufficient children fails on {impl.iso(o)}: {type(ex).__name__}: {str(ex)[:200]}",
                                  dict(kind="joint-raises", date=impl.iso(o), order=f"B({want})+A", error=str(ex)[:500]), True)
                continue
            stats["joint_runs"] += 1
            stats["large_other_population_runs"] = stats.get("large_other_population_runs", 0) + 1
            outJ = outJ.copy()
            outJ["__p"] = joint["p_id"].to_numpy()
            compare(outA, outJ.set_index("__p").loc[pidsA], pidsA, nodes, f"simulating after {want} self-sufficient children of other households", o, res, stats, exact=False)
    res.evaluations += stats["joint_runs"] + stats["relabellings"]
    res.distinct += stats["joint_runs"] + stats["relabellings"]
    res.extra["engine"] = stats
    res.rule = ("per date: two generated populations A and B closed under pointers with disjoint ids; every node of the default targets' graph is "
                "computed for A alone and for A+B, B+A and an interleaving, and compared per person of A (same dtype; equal, or within 1e-9 where "
                "only float summation order can differ — counted as float_noise_only; ids: same partition); then A with p_id / hh_id replaced by "
                "A is also simulated after 99 / 100 / 101 (thorough: up to 200) self-sufficient children under 25 of other households (own needs units numbered by counters). random other non-negative integers, consistently in all pointer columns. distinct = distinct joint / relabelled runs.")


def replay(payload):
    print(json.dumps(payload["payload"], indent=1, default=str, ensure_ascii=False)[:6000])
    return 1
