"""C06 — a reform changes only what depends on it (reform locality)."""
from __future__ import annotations

import copy
import json

import coqrun
import engine
import impl
import metam
import popgen

PRELUDE = "From GettsimModel Require Import Engine Dag.\nFrom GettsimGen Require Import GenDag GenConfig.\n"


def obligations():
    return [dict(
        name="c06_graphs_ordered",
        stmt="forallb (fun od => topo_ok dag_data_cols [] (subgraph (snd od) default_targets)) "
             "(filter (fun od => Z.leb 735599 (fst od)) dags) = true",
        proof="vm_cast_no_check (@eq_refl bool true).",
        what="on every dumped graph from 2015-01-01 on the nodes the default targets need are in topological order (the scan order of "
             "Dag.descendants = Engine.tainted used by C06_reform_locality)")]


def perturb(v, mode):
    import numpy as np

    if isinstance(v, dict):
        return {k: (x if k in ("rounding", "datum") else perturb(x, mode)) for k, x in v.items()}
    if isinstance(v, np.ndarray):
        if np.issubdtype(v.dtype, np.floating):
            w = v.copy()
            fin = np.isfinite(w)
            w[fin] = w[fin] * 1.07 + (0.5 if mode == "strong" else 0.0)
            return w
        return v
    if isinstance(v, bool):
        return v
    if isinstance(v, float):
        return v * 1.07 + (0.5 if mode == "strong" else 0.0) if v == v and abs(v) != float("inf") else v
    if isinstance(v, int) and mode == "strong":
        return v
    return v


def shares_mutable(params):
    """ids of mutable objects reachable from more than one parameter group"""
    import numpy as np

    owner = {}
    shared = []

    def walk(g, v):
        if isinstance(v, (dict, list, np.ndarray)):
            k = id(v)
            if k in owner and owner[k] != g:
                shared.append((owner[k], g))
            owner.setdefault(k, g)
            if isinstance(v, dict):
                for x in v.values():
                    walk(g, x)
            elif isinstance(v, list):
                for x in v:
                    walk(g, x)

    for g, v in params.items():
        walk(g, v)
    return shared


def make_replacement(orig, delta):
    """a user function with the same signature returning the original result changed"""
    import inspect

    names = list(inspect.signature(orig).parameters)
    src = f"def {orig.__name__}({', '.join(names)}):\n    r = _orig({', '.join(names)})\n    return (not r) if isinstance(r, bool) else r + {delta}\n"
    ns = {"_orig": orig}
    exec(src, ns)  # noqa: S102
    f = ns[orig.__name__]
    f.__annotations__ = dict(getattr(orig, "__annotations__", {}))
    return f


def copy_function(f):
    import types

    g = types.FunctionType(f.__code__, f.__globals__, name=f.__name__, argdefs=f.__defaults__, closure=f.__closure__)
    g.__dict__.update(copy.deepcopy(f.__dict__))
    g.__annotations__ = dict(f.__annotations__)
    g.__kwdefaults__ = f.__kwdefaults__
    g.__module__ = f.__module__
    g.__qualname__ = f.__qualname__
    return g


def compare(base, out, nodes, unaffected, keys, res, what, o, stats):
    changed = 0
    for t in nodes:
        if t not in out.columns:
            continue
        same = metam.col_equal(out[t].to_numpy(), base[t].to_numpy())
        if t in unaffected:
            stats["columns_outside_compared"] += 1
            if not same:
                w = metam.first_diff(out[t].to_numpy(), base[t].to_numpy(), keys)
                res.add_violation(f"{what}->{t}", f"reform {what} on {impl.iso(o)} changes column {t}, which does not depend on it: {w}",
                                  dict(kind="leak", date=impl.iso(o), reform=what, column=t, witness=w), True)
        elif not same:
            changed += 1
    return changed


REFORM_FIRST = r"""
import sys, json, functools, random, warnings
warnings.filterwarnings("ignore")
import impl, popgen
impl.setup()
from _gettsim.interface import compute_taxes_and_transfers
spec = json.loads(sys.stdin.read())
o = spec["ordinal"]
params, funcs = impl.env(o)
df = popgen.to_frame(popgen.population(random.Random(spec["seed"]), spec["year"], spec["n_hh"], id_style="sparse"))
out = {}
for n in spec["nodes"]:
    f = funcs[n]
    @functools.wraps(f)          # the usual way to write "original + 1": name, annotations AND the metadata dict are taken over (shared)
    def repl(*a, _f=f, **k):
        r = _f(*a, **k)
        return (not r) if isinstance(r, bool) else r + 98765.4321          # (large: statutory rounding of the node must not absorb it)
    try:
        a = compute_taxes_and_transfers(data=df, params=params, functions=[funcs, {n: repl}], targets=spec["targets"][n])
        b = compute_taxes_and_transfers(data=df, params=params, functions=funcs, targets=spec["targets"][n])
        out[n] = dict(reform={c: [float(v) for v in a[c]] for c in a.columns}, baseline_after={c: [float(v) for v in b[c]] for c in b.columns})
    except Exception as ex:
        out[n] = dict(error=type(ex).__name__ + ": " + str(ex)[:200])
print("RF" + json.dumps(out))
"""


def reform_first(o, year, seed, n_hh, nodes, targets):
    """in a FRESH process: the reform (a functools.wraps replacement sharing the original's metadata) is simulated BEFORE the baseline"""
    import subprocess

    import common as C

    env = dict(C.ENV)
    env["PYTHONPATH"] = str(C.VERIF / "tools") + ":" + env["PYTHONPATH"]
    p = subprocess.run([C.PY, "-c", REFORM_FIRST], env=env, input=json.dumps(dict(ordinal=o, year=year, seed=seed, n_hh=n_hh, nodes=nodes, targets=targets)),
                       capture_output=True, text=True, timeout=900)
    for line in p.stdout.splitlines():
        if line.startswith("RF"):
            return json.loads(line[2:])
    raise RuntimeError("reform_first failed: " + (p.stderr or p.stdout)[-800:])


def run(ctx, res):
    impl.setup()
    res.obligations += coqrun.prove("C06", PRELUDE + "Open Scope Z_scope.\n", obligations(), shards=1, timeout=1500)
    for o in res.obligations:
        if not o["ok"] and o["name"].startswith("c06_"):
            res.add_violation(f"obligation:{o['name']}", f"obligation {o['name']} no longer checks: {o['err'][-300:]}",
                              dict(kind="obligation", obligation=o["name"], err=o["err"]), False)
    rnd = ctx.rng("c06")
    ds = metam.dag_dates()
    dates = [impl.ordinal(x) for x in (["2024-01-01", "2019-01-01"] if ctx.tier == "quick" else
                                        ["2024-01-01", "2019-01-01", "2015-01-01", "2021-07-01", "2023-07-01", "2017-07-01"])]
    stats = dict(param_reforms=0, function_reforms=0, copies=0, columns_outside_compared=0, reforms_with_visible_effect=0, skipped={},
                 shared_mutable_objects=0)
    for o in [d for d in dates if d in ds]:
        d = metam.dag_for(o)
        year = int(impl.iso(o)[:4])
        nodes = metam.default_nodes(d)
        df = popgen.to_frame(popgen.population(rnd, year, 10 if ctx.tier == "quick" else 16, id_style="sparse"))
        params, funcs = impl.env(o)
        sh = shares_mutable(params)
        stats["shared_mutable_objects"] += len(sh)
        if sh:
            res.add_violation(f"aliasing:{sh[0][0]}/{sh[0][1]}", f"parameter groups {sh[0]} of set_up_policy_environment({impl.iso(o)}) share a mutable object",
                              dict(kind="aliasing", date=impl.iso(o), groups=sh[:5]), True)
        try:
            base, _ = engine.simulate(df, o, targets=nodes)
        except Exception as ex:  # noqa: BLE001
            stats["skipped"][impl.iso(o)] = f"{type(ex).__name__}: {str(ex)[:100]}"
            continue
        keys = list(df["p_id"])
        # identical copies change nothing
        p2 = copy.deepcopy(params)
        f2 = {k: copy_function(v) for k, v in funcs.items()}
        out, _ = engine.simulate(df, o, targets=nodes, params=p2, functions=f2)
        stats["copies"] += 1
        compare(base, out, nodes, set(nodes), keys, res, "identical-copy", o, stats)
        # parameter groups
        groups = list(params) if ctx.tier == "thorough" else rnd.sample(list(params), 8)
        for g in groups:
            users = metam.users_of_group(d, g)
            desc = metam.descendants(d, users)
            unaffected = set(nodes) - desc
            done = False
            for mode in ("strong", "mild"):
                p2 = copy.deepcopy(params)
                p2[g] = perturb(p2[g], mode)
                try:
                    out, _ = engine.simulate(df, o, targets=nodes, params=p2)
                    done = True
                    break
                except Exception:  # noqa: BLE001  (a perturbed parameter may make a rule fail: not the property)
                    continue
            if not done:
                stats["skipped"][f"{impl.iso(o)}:{g}"] = "perturbed run raises"
                continue
            stats["param_reforms"] += 1
            ch = compare(base, out, nodes, unaffected, keys, res, f"params[{g}]", o, stats)
            stats["reforms_with_visible_effect"] += 1 if ch else 0
            if len(res.samples) < 5:
                res.samples.append(dict(unit="parameter reform", date=impl.iso(o), group=g, users=len(users), descendants=len(desc),
                                        unaffected=len(unaffected), columns_changed=ch))
        # function replacement
        rule_nodes = [n for n in nodes if d["nodes"][n]["kind"]["k"] == "rule" and not d["nodes"][n]["kind"]["skipvec"]]
        for n in (rule_nodes if ctx.tier == "thorough" else rnd.sample(rule_nodes, 12)):
            f2 = dict(funcs)
            try:
                f2[n] = make_replacement(funcs[n], 1)
                out, _ = engine.simulate(df, o, targets=nodes, functions=f2)
            except Exception as ex:  # noqa: BLE001
                stats["skipped"][f"{impl.iso(o)}:{n}"] = f"replacement run raises {type(ex).__name__}"
                continue
            stats["function_reforms"] += 1
            unaffected = set(nodes) - metam.descendants(d, {n})
            ch = compare(base, out, nodes, unaffected, keys, res, f"function[{n}]", o, stats)
            stats["reforms_with_visible_effect"] += 1 if ch else 0
        # (iv) the documented list form functions=[policy_functions, replacement], REUSING the caller's function
        #      collection for successive reforms: each reform must stay local to its own descendants
        fshared = dict(funcs)
        snap = {k: id(v) for k, v in fshared.items()}
        for n in rnd.sample(rule_nodes, 3 if ctx.tier == "quick" else 10):
            try:
                repl = make_replacement(funcs[n], 1)
                if hasattr(funcs[n], "__info__"):
                    repl.__info__ = dict(funcs[n].__info__)
                repl.__name__ = n          # a function given in the list is registered under its __name__
                out, _ = engine.simulate(df, o, targets=nodes, functions=[fshared, repl])
            except Exception as ex:  # noqa: BLE001
                stats["skipped"][f"{impl.iso(o)}:list:{n}"] = f"replacement run raises {type(ex).__name__}"
                continue
            stats["function_reforms"] += 1
            stats["list_form_reforms"] = stats.get("list_form_reforms", 0) + 1
            ch = compare(base, out, nodes, set(nodes) - metam.descendants(d, {n}), keys, res, f"function-list[{n}]", o, stats)
            stats["list_form_with_visible_effect"] = stats.get("list_form_with_visible_effect", 0) + (1 if ch else 0)
            if {k: id(v) for k, v in fshared.items()} != snap:
                res.add_violation("caller:functions-modified", f"compute_taxes_and_transfers(functions=[policy_functions, replacement of {n}]) modified the caller's "
                                  f"function collection ({impl.iso(o)})", dict(kind="functions-modified", date=impl.iso(o), node=n), True)
                break
        # (vi) order of evaluation: in a fresh process a reform written with functools.wraps (metadata shared with the original) is simulated
        #      FIRST, the baseline afterwards: the baseline must equal the baseline of this process, the reform must differ in its node
        import random as _random

        seed6 = rnd.randrange(10**6)
        df6 = popgen.to_frame(popgen.population(_random.Random(seed6), year, 6, id_style="sparse"))
        cand = [n for n in rule_nodes if hasattr(funcs[n], "__info__")]
        pick6 = rnd.sample(cand, min(len(cand), 3 if ctx.tier == "quick" else 12))
        tg6 = {n: [n] + sorted(metam.descendants(d, {n}) & set(d["targets"]))[:2] for n in pick6}
        try:
            base6, _ = engine.simulate(df6, o, targets=sorted({t for v in tg6.values() for t in v}))
            rf = reform_first(o, year, seed6, 6, pick6, tg6)
        except Exception as ex:  # noqa: BLE001
            res.machinery_errors.append(f"reform_first {impl.iso(o)}: {type(ex).__name__}: {str(ex)[:300]}")
            rf = {}
        for n, r in rf.items():
            if "error" in r:
                stats["skipped"][f"{impl.iso(o)}:reform-first:{n}"] = r["error"][:100]
                continue
            stats["reform_first_runs"] = stats.get("reform_first_runs", 0) + 1
            for c, vals in r["baseline_after"].items():
                want = [float(v) for v in base6[c]]
                if len(vals) != len(want) or any(abs(a - b) > 1e-9 * max(1.0, abs(b)) for a, b in zip(vals, want)):
                    res.add_violation(f"reform-first:{n}", f"on {impl.iso(o)}, after a reform replacing {n} (functools.wraps of the original, + 98765.4321) was simulated first in a fresh "
                                      f"process, the BASELINE column {c} differs from the baseline computed without a preceding reform: {vals[:6]} vs {want[:6]}",
                                      dict(kind="reform-first", date=impl.iso(o), node=n, column=c, baseline_after_reform=vals[:20], baseline=want[:20], seed=seed6), True)
                    break
            else:
                if r["reform"].get(n) == r["baseline_after"].get(n):
                    res.add_violation(f"reform-ignored:{n}", f"on {impl.iso(o)} replacing {n} by a user function (functools.wraps of the original, + 98765.4321) has no effect on {n} itself",
                                      dict(kind="reform-ignored", date=impl.iso(o), node=n, values=r["reform"].get(n, [])[:20], seed=seed6), True)
        # (v) in-place reform of a freshly set-up environment (nested values), then a NEW environment: the new one is pristine
        from _gettsim.policy_environment import set_up_policy_environment
        import modelio as M
        import u10_hist

        iso = impl.iso(o)
        p_first, _ = set_up_policy_environment(iso)
        before = repr(M.canon_py(p_first))
        for g in rnd.sample(sorted(p_first), 4):
            pa, _ = set_up_policy_environment(iso)
            u10_hist.perturb_inplace(pa[g], 0)
            pb, _ = set_up_policy_environment(iso)
            stats["inplace_reforms"] = stats.get("inplace_reforms", 0) + 1
            if repr(M.canon_py(pb)) != before:
                bad = [k for k in pb if repr(M.canon_py(pb[k])) != repr(M.canon_py(p_first[k]))]
                res.add_violation(f"leak:params[{g}]", f"after an in-place reform of params['{g}'] in one environment, a newly set-up environment for {iso} "
                                  f"differs from a pristine one in groups {bad[:4]}", dict(kind="leak", date=iso, reformed=g, differs=bad), True)
                break
    res.evaluations += stats["param_reforms"] + stats["function_reforms"] + stats["copies"]
    res.distinct += stats["param_reforms"] + stats["function_reforms"] + stats["copies"]
    res.extra["engine"] = stats
    res.rule = ("per date: base run of every node of the default targets' graph; (i) deep copy of params + copies of every function: all columns "
                "bit-identical; (ii) per parameter group (quick: 8 sampled, thorough: all) every finite float leaf is changed (x*1.07+0.5) and "
                "every column outside descendants(users(group)) — computed on the regenerated graph — must be bit-identical; (iii) per sampled "
                "rule (thorough: all) the function is replaced by a user function returning original+1 / negation, same check with "
                "(vi) in a fresh process a reform written with functools.wraps (metadata shared with the original) is simulated BEFORE the baseline: the baseline must be unchanged and the reform visible in its node. descendants(rule), also in the list form functions=[policy_functions, replacement] with the collection reused; (v) an in-place reform of nested values in one freshly set-up environment leaves a newly set-up environment pristine. Also: no mutable object is shared between parameter groups. distinct = distinct (date, reform).")


def replay(payload):
    print(json.dumps(payload["payload"], indent=1, default=str, ensure_ascii=False)[:6000])
    return 1
