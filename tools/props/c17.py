"""C17 — means-tested benefits are mutually exclusive as the priority rules say."""
from __future__ import annotations

import json

import coqrun
import engine
import impl
import metam
import popgen

PRELUDE = ("From GettsimModel Require Import Priority Dag.\nFrom GettsimGen Require Import GenRules GenDag GenConfig.\nOpen Scope Z_scope.\n")

# rule (name in the graph) -> (argument name -> (binder, constructor)), closed form over the binders, proof script
SPECS = {
    "arbeitsl_geld_2_m_bg": (dict(arbeitsl_geld_2_vor_vorrang_m_bg=("x", "VFloat"), wohngeld_vorrang_bg=("f1", "VBool"), kinderzuschl_vorrang_bg=("k", "VBool"),
                                  wohngeld_kinderzuschl_vorrang_bg=("f2", "VBool"), erwachsene_alle_rentner_hh=("r", "VBool")),
                             "Ok (VFloat (alg2_spec x f1 k f2 r))", "destruct f1, k, f2, r; reflexivity."),
    "wohngeld_m_wthh": (dict(wohngeld_anspruchshöhe_m_wthh=("y", "VFloat"), erwachsene_alle_rentner_hh=("r", "VBool"),
                             wohngeld_kinderzuschl_vorrang_wthh=("a2", "VBool"), wohngeld_vorrang_wthh=("a1", "VBool")),
                        "Ok (VFloat (wohngeld_spec y r a1 a2))", "destruct r, a1, a2; reflexivity."),
    "kinderzuschl_m_bg": (dict(_kinderzuschl_nach_vermög_check_m_bg=("z", "VFloat"), kinderzuschl_vorrang_bg=("k", "VBool"),
                               wohngeld_kinderzuschl_vorrang_bg=("f2", "VBool"), anz_rentner_hh=("nr", "VInt")),
                          "Ok (VFloat (kiz_spec z k f2 nr))", "destruct k, f2; unfold kiz_spec; cbn; destruct (0 <? nr); reflexivity."),
    "wohngeld_vorrang_bg": (dict(arbeitsl_geld_2_regelbedarf_m_bg=("b", "VFloat"), arbeitsl_geld_2_eink_m_bg=("e", "VFloat"), wohngeld_anspruchshöhe_m_bg=("w", "VFloat")),
                            "Ok (VBool (geq_spec (xq_add e w) b))", "reflexivity."),
    "kinderzuschl_vorrang_bg": (dict(arbeitsl_geld_2_regelbedarf_m_bg=("b", "VFloat"), arbeitsl_geld_2_eink_m_bg=("e", "VFloat"), _kinderzuschl_nach_vermög_check_m_bg=("z", "VFloat")),
                                "Ok (VBool (geq_spec (xq_add e z) b))", "reflexivity."),
    "wohngeld_kinderzuschl_vorrang_bg": (dict(arbeitsl_geld_2_regelbedarf_m_bg=("b", "VFloat"), arbeitsl_geld_2_eink_m_bg=("e", "VFloat"),
                                              _kinderzuschl_nach_vermög_check_m_bg=("z", "VFloat"), wohngeld_anspruchshöhe_m_bg=("w", "VFloat")),
                                         "Ok (VBool (geq_spec (xq_add (xq_add e w) z) b))", "reflexivity."),
    "erwachsene_alle_rentner_hh": (dict(anz_erwachsene_hh=("ne", "VInt"), anz_rentner_hh=("nr", "VInt")), "Ok (VBool (ne =? nr))", "reflexivity."),
}
LO = 735599


def obligations(rules):
    obls = []
    for dag, (argmap, closed, script) in SPECS.items():
        for m in rules["functions"]:
            if m["dag"] != dag or m["end"] < LO:
                continue
            if set(m["args"]) != set(argmap):
                obls.append(dict(name=f"c17_{m['coq']}", stmt="False", proof="idtac.", what=f"{m['name']}: signature {m['args']} is not the expected one {sorted(argmap)}"))
                continue
            binders = " ".join(argmap[a][0] for a in m["args"])
            vals = "; ".join(f"{argmap[a][1]} {argmap[a][0]}" for a in m["args"])
            obls.append(dict(
                name=f"c17_{m['coq']}",
                stmt=f"forall {binders}, call_rule all_fundefs {m['coq']} [{vals}] = {closed}",
                proof=f"intros {binders}. {script}",
                what=f"the regenerated AST of {m['name']} ({dag}) equals its closed form for all argument values"))
    # grunds_im_alter_m_eg pays nothing unless all adults of the household are pensioners
    for m in rules["functions"]:
        if m["dag"] == "grunds_im_alter_m_eg" and m["end"] >= LO:
            names = m["args"]
            binders = []
            vals = []
            for a in names:
                if a == "erwachsene_alle_rentner_hh":
                    vals.append("VBool false")
                elif a in ("anz_kinder_eg", "anz_personen_eg"):
                    binders.append("n_" + str(len(binders)))
                    vals.append(f"VInt {binders[-1]}")
                else:
                    binders.append("v_" + str(len(binders)))
                    vals.append(f"VFloat {binders[-1]}")
            obls.append(dict(
                name=f"c17_{m['coq']}_needs_all_pensioners",
                stmt=f"forall {' '.join(binders)}, call_rule all_fundefs {m['coq']} [{'; '.join(vals)}] = Ok (VFloat (xz 0))",
                proof=f"intros {' '.join(binders)}. cbn. repeat match goal with |- context [xq_leb ?a ?b] => destruct (xq_leb a b) end; reflexivity.",
                what=f"{m['name']}: with erwachsene_alle_rentner_hh = False the result is 0.0 for all other argument values"))
    for src, agg in [("wohngeld_vorrang_bg", "wohngeld_vorrang_wthh"), ("wohngeld_kinderzuschl_vorrang_bg", "wohngeld_kinderzuschl_vorrang_wthh")]:
        obls.append(dict(
            name=f"c17_dag_{agg}",
            stmt=f'forallb (fun od => existsb (fun n => String.eqb (d_name n) "{agg}" && match d_kind n with KGroupAgg a => String.eqb a "any" | _ => false end '
                 f'&& match d_args n with [s; g] => String.eqb s "{src}" && String.eqb g "wthh_id" | _ => false end) (snd od)) (filter (fun od => Z.leb {LO} (fst od)) dags) = true',
            proof="vm_cast_no_check (@eq_refl bool true).",
            what=f"on every dumped graph from 2015 on, {agg} is the `any` aggregate of {src} over wthh_id"))
    return obls


def run(ctx, res):
    impl.setup()
    rules = ctx.load_rules()
    out = coqrun.prove("C17", PRELUDE, obligations(rules), shards=4, timeout=900)
    res.obligations += out
    rnd = ctx.rng("c17")
    ds = [d for d in metam.dag_dates() if d >= LO]
    dates = [impl.ordinal(x) for x in ["2024-01-01", "2019-01-01"]] + (rnd.sample(ds, 2) if ctx.tier == "quick" else rnd.sample(ds, 12))
    tg = ["arbeitsl_geld_2_m_bg", "wohngeld_m_wthh", "kinderzuschl_m_bg", "grunds_im_alter_m_eg", "bg_id", "wthh_id",
          "kinderzuschl_vorrang_bg", "wohngeld_kinderzuschl_vorrang_bg", "wohngeld_vorrang_bg"]
    stats = dict(populations=0, persons=0, alg2_positive=0, wohngeld_positive=0, kiz_positive=0, grunds_positive=0, skipped=[])
    for o in sorted(set(dates)):
        year = int(impl.iso(o)[:4])
        for rep in range(4 if ctx.tier == "quick" else 10):
            pop = popgen.population(rnd, year, 12, templates=["couple_kids", "single_parent", "married", "pensioners", "single_pensioner", "patchwork",
                                                               "self_sufficient_child", "three_gen", "single"], id_style="sparse")
            # sweep incomes / rents across the break-even points of the priority checks
            for p in pop:
                if not p["kind"] and rnd.random() < 0.8:
                    p["bruttolohn_m"] = rnd.choice([0.0, 300.0, 700.0, 1000.0, 1300.0, 1600.0, 1900.0, 2200.0, 2600.0, 3200.0])
                    p["vermögen_bedürft"] = rnd.choice([0.0, 0.0, 3000.0, 20000.0])
                    p["arbeitsstunden_w"] = 0.0 if p["bruttolohn_m"] == 0 else 38.5
            # flat shares: move some single adults into the dwelling of a family (several Bedarfsgemeinschaften in one household)
            by_hh = {}
            for p in pop:
                by_hh.setdefault(p["hh_id"], []).append(p)
            singles = [h for h, ms in by_hh.items() if len(ms) == 1 and not ms[0]["kind"]]
            families = [h for h, ms in by_hh.items() if any(m["kind"] for m in ms)]
            for h in singles[: len(singles) // 2 + 1]:
                if families:
                    fam = rnd.choice(families)
                    by_hh[h][0]["hh_id"] = fam
                    for k in popgen.HH_FIELDS:                      # household-level inputs are those of the dwelling
                        by_hh[h][0][k] = by_hh[fam][0][k]
                    by_hh[h][0]["bruttolohn_m"] = rnd.choice([0.0, 400.0, 900.0])
            df = popgen.to_frame(pop)
            try:
                outp, _ = engine.simulate(df, o, targets=tg)
            except Exception as ex:  # noqa: BLE001
                stats["skipped"].append(f"{impl.iso(o)}: {type(ex).__name__}: {str(ex)[:100]}")
                continue
            stats["populations"] += 1
            bg2w = {}
            for i in range(len(df)):
                stats["persons"] += 1
                a, w, kz, g = (float(outp[c].iloc[i]) for c in tg[:4])
                stats["alg2_positive"] += a > 0
                stats["wohngeld_positive"] += w > 0
                stats["kiz_positive"] += kz > 0
                stats["grunds_positive"] += g > 0
                pid = int(df["p_id"].iloc[i])
                row = dict(p_id=pid, alg2=a, wohngeld=w, kinderzuschlag=kz, grundsicherung=g)
                if a > 0 and (w > 0 or kz > 0):
                    res.add_violation("overlap:alg2", f"person {pid} on {impl.iso(o)} receives ALG II / Buergergeld together with Wohngeld or Kinderzuschlag: {row}",
                                      dict(kind="overlap", date=impl.iso(o), row=row, household=df[df['hh_id'] == df['hh_id'].iloc[i]].to_dict('records')), True)
                if g > 0 and (a > 0 or w > 0 or kz > 0):
                    res.add_violation("overlap:grundsicherung", f"person {pid} on {impl.iso(o)} receives Grundsicherung im Alter together with another means-tested benefit: {row}",
                                      dict(kind="overlap", date=impl.iso(o), row=row, household=df[df['hh_id'] == df['hh_id'].iloc[i]].to_dict('records')), True)
                if kz > 0 and not (bool(outp["kinderzuschl_vorrang_bg"].iloc[i]) or bool(outp["wohngeld_kinderzuschl_vorrang_bg"].iloc[i])):
                    res.add_violation("kiz:need-not-covered", f"person {pid} on {impl.iso(o)} receives Kinderzuschlag although neither priority check says the need is covered: {row}",
                                      dict(kind="kiz", date=impl.iso(o), row=row), True)
                # the Wohngeld part-household of a person is hh_id*100 + 1 exactly if a priority check of the own bg passed (Groupings.wthh_spec)
                want = int(df["hh_id"].iloc[i]) * 100 + (1 if (bool(outp["wohngeld_vorrang_bg"].iloc[i]) or bool(outp["wohngeld_kinderzuschl_vorrang_bg"].iloc[i])) else 0)
                if int(outp["wthh_id"].iloc[i]) != want:
                    res.add_violation("wthh-spec", f"person {pid} on {impl.iso(o)}: wthh_id = {int(outp['wthh_id'].iloc[i])}, but hh_id = {int(df['hh_id'].iloc[i])}, "
                                      f"wohngeld_vorrang_bg = {bool(outp['wohngeld_vorrang_bg'].iloc[i])}, wohngeld_kinderzuschl_vorrang_bg = "
                                      f"{bool(outp['wohngeld_kinderzuschl_vorrang_bg'].iloc[i])} (expected {want})",
                                      dict(kind="wthh-spec", date=impl.iso(o), row=row, household=df[df['hh_id'] == df['hh_id'].iloc[i]].to_dict('records')), True)
                b, wt = int(outp["bg_id"].iloc[i]), int(outp["wthh_id"].iloc[i])
                if bg2w.setdefault(b, wt) != wt:
                    res.add_violation("bg-split-across-wthh", f"members of Bedarfsgemeinschaft {b} on {impl.iso(o)} fall into different Wohngeld part-households {bg2w[b]} / {wt}",
                                      dict(kind="bg-wthh", date=impl.iso(o), bg_id=b), True)
        if len(res.samples) < 3:
            res.samples.append(dict(unit="priority sweep", date=impl.iso(o), persons=stats["persons"]))
    for ob in out:
        if not ob["ok"] and not any(v["found_input"] for v in res.violations):
            res.add_violation(f"obligation:{ob['name']}", f"obligation {ob['name']} no longer checks ({ob['what']}): {ob['err'][-200:]}",
                              dict(kind="obligation", obligation=ob["name"], what=ob["what"], err=ob["err"]), False)
    if stats["populations"] == 0:
        res.machinery_errors.append("C17: no generated population could be simulated: " + "; ".join(stats["skipped"][:2])[:300])
    res.evaluations += stats["persons"]
    res.distinct += stats["populations"]
    res.extra["engine"] = stats
    res.rule = ("generated populations (couples with children, single parents, pensioners, patchwork, self-sufficient children, three generations) with "
                "wages swept 0..3200 and wealth across the exemption, at fixed and sampled date classes >= 2015: for every person ALG II>0 => "
                "Wohngeld=0 and Kinderzuschlag=0; Grundsicherung>0 => the other three are 0; Kinderzuschlag>0 => a priority check says the need is "
                "covered; wthh_id = hh_id*100 + [a priority check of the own bg passed] (the specification proved for the model builder); all members of a bg share one wthh; single adults are moved into family dwellings (several bgs per household). The counters of persons with each benefit > 0 show the cases are non-vacuous. "
                "distinct = populations.")


def replay(payload):
    print(json.dumps(payload["payload"], indent=1, default=str, ensure_ascii=False)[:6000])
    return 1
