"""C10 — statutory rounding is applied exactly once, on the right grid."""
from __future__ import annotations

import copy
import datetime
import json
import math
from fractions import Fraction

import common as C
import coqrun
import engine
import impl
import modelio as M
import popgen

PRELUDE = """From GettsimModel Require Import Rounding ChkC10.
From GettsimGen Require Import GenYaml GenConfig.
"""

UNITS = {"y": Fraction(1), "m": Fraction(12), "w": Fraction(36525, 700), "d": Fraction(36525, 100)}  # per year


def obligations():
    return [dict(
        name="c10_specs_all_dates",
        stmt="c10_ok_for yaml_groups internal_params_groups date_classes = true",
        proof="vm_cast_no_check (@eq_refl bool true).",
        what="for every parameter group and every date class: the rounding specification loaded into the environment "
             "equals the YAML entry in force (base, direction, to_add_after_rounding), base > 0, direction in "
             "{up,down,nearest}",
        diag="c10_diag_str yaml_groups internal_params_groups date_classes")]


# ---------------------------------------------------------------------------


def yaml_spec(group, name, o):
    raw = impl.raw_yaml(group).get("rounding", {}).get(name)
    if not raw:
        return None
    ds = sorted(d for d in raw if isinstance(d, datetime.date) and d.toordinal() <= o)
    if not ds:
        return None
    e = raw[ds[-1]]
    return dict(base=e["base"], direction=e["direction"], off=e.get("to_add_after_rounding", 0))


def frac(x):
    return Fraction(repr(float(x))) if isinstance(x, float) else Fraction(x)


def round_exact(spec, x: Fraction) -> Fraction:
    b = frac(spec["base"])
    q = x / b
    fl = q.numerator // q.denominator
    if spec["direction"] == "down":
        k = fl
    elif spec["direction"] == "up":
        k = fl if q == fl else fl + 1
    else:
        d = q - fl
        k = fl if d < Fraction(1, 2) else fl + 1 if d > Fraction(1, 2) else (fl if fl % 2 == 0 else fl + 1)
    return b * k + frac(spec["off"])


def ambiguous(spec, x: float) -> bool:
    """x/base within 1e-9 of an integer or half-integer: float and exact arithmetic may part"""
    q = frac(x) / frac(spec["base"])
    for den in (1, 2):
        r = q * den
        n = round(r)
        if abs(r - n) <= Fraction(1, 10**9) * max(1, abs(r)) and not (r == n and is_dyadic(spec["base"])):
            return True
    return False


def is_dyadic(b) -> bool:
    f = Fraction(b) if not isinstance(b, float) else Fraction(b)   # exact binary value
    d = f.denominator
    return d & (d - 1) == 0 and frac(b) == f


def split_unit(name):
    import re

    m = re.fullmatch(r"(?P<base>.*_)(?P<unit>[ymwd])(?P<agg>_(?:hh|wthh|fg|bg|eg|ehe|sn))?", name)
    if not m:
        return None
    return m.group("base"), m.group("unit"), m.group("agg") or ""


def engine_case(rules, o, m, rnd, n_hh=10):
    """T2: supply the rule's computed parents as data, then compare rounding on / off.
    returns dict(evals, bad=[...]) ; bad items carry a concrete failing input"""
    name = m["dag"]
    spec = yaml_spec(m["round"], name, o)
    year = datetime.date.fromordinal(o).year
    df = popgen.to_frame(popgen.population(rnd, year, n_hh, id_style="sparse"))
    active = {x["dag"] for x in engine.active_rules(rules, o)}
    parents = [a for a in m["args"] if not a.endswith("_params")]
    bad = []
    try:
        t1 = [a for a in parents if a not in df.columns]
        out1, _ = engine.simulate(df, o, targets=t1 or [name], rounding=True)
    except Exception as ex:  # noqa: BLE001
        return dict(evals=0, bad=[], skipped=f"{type(ex).__name__}: {str(ex)[:120]}")
    data2 = df.copy()
    for a in parents:
        if a in out1.columns and a not in data2.columns:
            data2[a] = out1[a].to_numpy()
    su = split_unit(name)
    targets = [name]
    other = None
    if su:
        base, unit, agg = su
        for u in "ymwd":
            cand = f"{base}{u}{agg}"
            if u != unit and cand not in active and cand not in data2.columns:
                other = (cand, UNITS[u] and (UNITS[unit] / UNITS[u]))   # factor: value_other = value * UNITS[unit]/UNITS[u]
                targets.append(cand)
                break
    try:
        on, _ = engine.simulate(data2, o, targets=targets, rounding=True)
        off, _ = engine.simulate(data2, o, targets=targets, rounding=False)
    except Exception as ex:  # noqa: BLE001
        return dict(evals=0, bad=[], skipped=f"{type(ex).__name__}: {str(ex)[:120]}")
    evals = 0
    for i in range(len(df)):
        x = float(off[name].iloc[i])
        y = float(on[name].iloc[i])
        if not (math.isfinite(x) and math.isfinite(y)):
            continue
        evals += 1
        if spec is None:
            continue
        if ambiguous(spec, x):
            continue
        want = round_exact(spec, frac(x))
        if not M.close(y, want):
            bad.append(dict(kind="value", date=impl.iso(o), rule=name, p_id=int(df["p_id"].iloc[i]), unrounded=x,
                            rounded_by_implementation=y, statutory=float(want), spec=spec,
                            inputs={a: _py(data2[a].iloc[i]) for a in parents if a in data2.columns}))
        if other is not None:
            cand, fac = other
            yo = float(on[cand].iloc[i])
            if math.isfinite(yo) and not M.close(yo, frac(y) * fac):
                bad.append(dict(kind="derived column rounded again / not derived from the rounded column",
                                date=impl.iso(o), rule=name, derived=cand, p_id=int(df["p_id"].iloc[i]),
                                rounded=y, derived_value=yo, expected=float(frac(y) * fac)))
            xo = float(off[cand].iloc[i])
            if math.isfinite(xo) and not M.close(xo, frac(x) * fac):
                bad.append(dict(kind="derived column (rounding off) is not the converted column", date=impl.iso(o),
                                rule=name, derived=cand, unrounded=x, derived_value=xo))
    return dict(evals=evals, bad=bad, other=other[0] if other else None, n=len(df))


def _py(v):
    try:
        return v.item()
    except Exception:  # noqa: BLE001
        return v


def missing_spec_case(rules, o, m, rnd):
    """T3: a rule marked for rounding whose specification is absent must raise"""
    name = m["dag"]
    params, funcs = engine.deep_params(o)
    g = m["round"]
    if g not in params or name not in params[g].get("rounding", {}):
        return None
    del params[g]["rounding"][name]
    year = datetime.date.fromordinal(o).year
    df = popgen.to_frame(popgen.population(rnd, year, 3, id_style="dense"))
    try:
        engine.simulate(df, o, targets=[name], rounding=True, params=params, functions=funcs)
    except KeyError:
        # with rounding disabled the same call must work
        try:
            engine.simulate(df, o, targets=[name], rounding=False, params=params, functions=funcs)
        except KeyError as ex:
            if "ounding" in str(ex):
                return dict(kind="rounding=False still needs the spec", rule=name, date=impl.iso(o), error=str(ex)[:200])
        except Exception:  # noqa: BLE001   (e.g. a rule not implemented for that year: not about rounding)
            pass
        return "ok"
    except Exception as ex:  # noqa: BLE001
        return dict(kind="missing spec raised another error", rule=name, date=impl.iso(o), error=f"{type(ex).__name__}: {ex}"[:200])
    return dict(kind="missing rounding spec is silently ignored", rule=name, date=impl.iso(o))


def wrapper_sweep(specs, rnd, per_spec):
    """T1: the real wrapper on arrays vs the model's round_x, for every (base, direction, offset) in force"""
    impl.setup()
    import numpy as np

    from _gettsim.interface import _add_rounding_to_one_function

    cases = []
    for sp in specs:
        b = float(sp["base"])
        ks = [0, 1, 2, 3, 7, 10, 11, 100, 12345, -1, -2, -7]
        xs = []
        for k in ks:
            xs += [k * b, (k + 0.5) * b, k * b + b / 4, k * b - b / 4, k * b + 1e-7, k * b - 1e-7]
        xs += [round(rnd.uniform(-50, 50000), 2) for _ in range(per_spec)]
        f = _add_rounding_to_one_function(base=sp["base"], direction=sp["direction"],
                                          to_add_after_rounding=sp["off"])(lambda x: x)
        ys = f(np.array(xs, dtype=float))
        for x, y in zip(xs, ys):
            cases.append(dict(spec=sp, x=float(x), y=float(y)))
    dirs = {"up": "DUp", "down": "DDown", "nearest": "DNearest"}
    items = "; ".join(
        f"round_x {C.cq(frac(c['spec']['base']))} {dirs[c['spec']['direction']]} {C.cq(frac(c['spec']['off']))} {C.cxq(c['x'])}"
        for c in cases)
    res, _ = M.eval_json("U_round", PRELUDE, [f"json_val (VList (map VFloat [{items}]))"], timeout=600,
                         workdir=C.WORK / "u10")
    bad = []
    amb = 0
    for c, m in zip(cases, res[0]):
        if M.close(c["y"], m[1]):
            continue
        if ambiguous(c["spec"], c["x"]):
            amb += 1
            # still demand the property itself: on the grid (tolerance) and error below one step
            b = frac(c["spec"]["base"])
            r = frac(c["y"]) - frac(c["spec"]["off"])
            k = round(r / b)
            if abs(r - k * b) <= Fraction(1, 10**9) * max(1, abs(r)) and abs(r - frac(c["x"])) < b * (1 + Fraction(1, 10**6)):
                continue
        bad.append(dict(kind="wrapper", **c, model=M.show(m)))
    return cases, bad, amb


def specs_in_force(rules):
    out = {}
    for g in rules["config"]["INTERNAL_PARAMS_GROUPS"]:
        raw = impl.raw_yaml(g).get("rounding", {})
        for name, ent in raw.items():
            for d, e in ent.items():
                if isinstance(d, datetime.date):
                    sp = dict(base=e["base"], direction=e["direction"], off=e.get("to_add_after_rounding", 0))
                    out[json.dumps(sp, sort_keys=True)] = sp
    return list(out.values())


def pick_dates(rules, tier, rnd):
    cls = rules["config"]["date_classes"]
    lo = datetime.date(1995, 1, 1).toordinal()
    fixed = [datetime.date(*t).toordinal() for t in [(2024, 1, 1), (2019, 7, 1), (2015, 1, 1), (2003, 6, 1), (2001, 3, 1), (2009, 1, 1)]]
    if tier == "thorough":
        return sorted(set(fixed + [c for c in cls if c >= lo]))
    return sorted(set(fixed + rnd.sample([c for c in cls if c >= lo], 3)))


def run(ctx, res):
    rules = ctx.load_rules()
    impl.setup()
    out = coqrun.prove("C10", PRELUDE, obligations(), shards=1, timeout=900)
    res.obligations += out
    cnt = coqrun.eval_strings("C10_count", PRELUDE + "From GettsimModel Require Import Corr.\n",
                              ["show_z (Z.of_nat (c10_count yaml_groups internal_params_groups date_classes))"])
    if cnt:
        res.extra["specs_compared_in_coq"] = int(cnt[0])
    rnd = ctx.rng("c10")
    directed = []          # (date, rule) pairs the diagnostic points at
    for o in out:
        if not o["ok"]:
            for item in (o.get("diag") or "").split(";"):
                p = item.split(":")
                if len(p) == 3:
                    directed.append((int(p[0]), p[1], p[2]))
    # T1
    specs = specs_in_force(rules)
    cases, bad_w, amb = wrapper_sweep(specs, rnd, 20 if ctx.tier == "quick" else 200)
    res.evaluations += len(cases)
    res.samples += [dict(unit="T1 wrapper", **c) for c in cases[:2]]
    for b in bad_w[:5]:
        res.add_violation(f"wrapper:{json.dumps(b['spec'], sort_keys=True)}:x={b['x']}",
                          f"rounding wrapper: {b['spec']} at x={b['x']} gives {b['y']}, model {b['model']}", b, True)
    # T2 / T3
    dates = pick_dates(rules, ctx.tier, rnd)
    t2 = dict(cases=0, rows=0, skipped={}, with_other_unit=0, float_ambiguous_wrapper=amb)
    seen_rules = set()
    todo = []
    for o in dates:
        for m in engine.active_rules(rules, o):
            if m["round"] and m["timedep"] is not None:
                if ctx.tier == "quick" and (m["name"] in seen_rules) and o not in (impl.ordinal("2003-06-01"), impl.ordinal("2001-03-01")):
                    continue
                seen_rules.add(m["name"])
                todo.append((o, m))
    dset = {(d, n) for d, _g, n in directed}
    for d, g, n in directed[:400]:
        for m in engine.active_rules(rules, d):
            if m["dag"] == n and m["round"] == g and (d, m) not in todo:
                todo.insert(0, (d, m))
    found_directed = set()
    nd = 0
    for o, m in todo:
        if (o, m["dag"]) in dset:
            if m["dag"] in found_directed:
                continue          # one concrete input per offending rule is enough
        r = engine_case(rules, o, m, rnd, n_hh=8 if ctx.tier == "quick" else 20)
        if r.get("skipped"):
            t2["skipped"][f"{m['dag']}@{impl.iso(o)}"] = r["skipped"]
            continue
        t2["cases"] += 1
        t2["rows"] += r["evals"]
        t2["with_other_unit"] += 1 if r.get("other") else 0
        nd += r["evals"]
        if len(res.samples) < 6:
            res.samples.append(dict(unit="T2 engine", date=impl.iso(o), rule=m["dag"], rows=r["evals"], derived=r.get("other")))
        for b in r["bad"][:1]:
            if b["kind"] == "value":
                key = f"spec:{m['round']}.{m['dag']}:{json.dumps(b['spec'], sort_keys=True)}"
                found_directed.add(m["dag"])
            else:
                key = f"derived:{m['dag']}->{b.get('derived')}"
            res.add_violation(key, f"{b['kind']}: rule {m['dag']} on {b['date']}: {json.dumps({k: v for k, v in b.items() if k not in ('inputs',)}, default=str)[:300]}", b, True)
    # T3
    t3 = 0
    for o, m in todo[:: max(1, len(todo) // (6 if ctx.tier == "quick" else 40))]:
        try:
            r = missing_spec_case(rules, o, m, rnd)
        except Exception as ex:  # noqa: BLE001
            r = None
        if r is None:
            continue
        t3 += 1
        if r != "ok":
            res.add_violation(f"missing-spec:{m['dag']}", f"{r['kind']}: {m['dag']} on {r['date']}", r, True)
    res.evaluations += nd + t3
    res.distinct += len({(json.dumps(c["spec"], sort_keys=True), c["x"]) for c in cases}) + t2["cases"]
    res.rule = ("T1: the real rounding wrapper vs the model's round_x for every (base, direction, offset) that occurs in any "
                "YAML rounding section, at grid points, half-way points, +-1e-7 and random values (float-ambiguous points "
                "are held to the property itself: on grid, error < base). T2: for every rounded rule at the chosen dates the "
                "rule's computed parents are supplied as data and the engine is run with rounding on and off: on == "
                "statutory rounding (YAML entry in force, exact rational arithmetic) of off; a derived time-unit column == "
                "factor * rounded column (not rounded again). T3: deleting the specification makes the run raise KeyError. "
                "distinct = distinct (spec, x) + distinct (date, rule) engine cases.")
    res.extra["t2"] = t2
    res.extra["t3_missing_spec_cases"] = t3
    res.extra["distinct_specs"] = len(specs)
    # obligations that failed and for which no concrete input was found
    for o in out:
        if not o["ok"]:
            offenders = {n for _d, _g, n in directed}
            if not (offenders & found_directed):
                res.add_violation(f"obligation:{o['name']}", f"obligation {o['name']} no longer checks: {(o.get('diag') or o['err'])[:300]}",
                                  dict(kind="obligation", obligation=o["name"], diag=o.get("diag"), err=o.get("err")), False)


def replay(payload):
    impl.setup()
    p = payload["payload"]
    print(json.dumps(p, indent=1, default=str, ensure_ascii=False))
    if p.get("kind") == "value":
        o = impl.ordinal(p["date"])
        params, _ = impl.env(o)
        g = [m for m in json.loads((C.GEN / "rules.json").read_text())["functions"] if m["dag"] == p["rule"] and m["round"]][0]["round"]
        print("loaded spec:", params[g]["rounding"].get(p["rule"]), " YAML spec in force:", yaml_spec(g, p["rule"], o))
    return 1
