"""C20 — malformed input data are rejected, and type coercion is lossless."""
from __future__ import annotations

import json
import math
import warnings

import common as C
import engine
import impl
import metam
import modelio as M
import popgen

PRELUDE = "From GettsimModel Require Import Validation.\nOpen Scope Z_scope.\n"
FKS = ["p_id_ehepartner", "p_id_einstandspartner", "p_id_elternteil_1", "p_id_elternteil_2"]


def expect_reject(df, date, what, res, stats, targets=None, payload=None):
    stats["faults"] += 1
    stats["by_class"][what.split(":")[0]] = stats["by_class"].get(what.split(":")[0], 0) + 1
    try:
        with warnings.catch_warnings():
            warnings.simplefilter("ignore")
            engine.simulate(df, date, targets=targets, fill_missing=False)
    except Exception as ex:  # noqa: BLE001
        stats["rejected_with"][type(ex).__name__] = stats["rejected_with"].get(type(ex).__name__, 0) + 1
    else:
        res.add_violation(f"accepted:{what}", f"malformed data are simulated instead of rejected: {what} on {date}",
                          dict(kind="accepted", fault=what, date=date, **(payload or {})), True)
        return False
    # the same faulty table with its rows in another order (the members of a group are then not adjacent, the
    # fault stands at another position): a check that only looks at neighbouring / first / last rows lets it through
    import random as _random

    perm = list(range(len(df)))
    _random.Random(stats["faults"]).shuffle(perm)
    d2 = df.iloc[perm].reset_index(drop=True)
    stats["shuffled"] = stats.get("shuffled", 0) + 1
    try:
        with warnings.catch_warnings():
            warnings.simplefilter("ignore")
            engine.simulate(d2, date, targets=targets, fill_missing=False)
    except Exception:  # noqa: BLE001
        return True
    res.add_violation(f"accepted-shuffled:{what}", f"malformed data are simulated instead of rejected once the rows are re-ordered: {what} on {date}, row order {perm}",
                      dict(kind="accepted", fault=what, date=date, row_order=perm, table=json.loads(d2.to_json(orient="split", default_handler=str)), **(payload or {})), True)
    return False


def faults(ctx, res, stats):
    import numpy as np
    import pandas as pd

    rnd = ctx.rng("c20")
    for date in (["2024-01-01"] if ctx.tier == "quick" else ["2024-01-01", "2019-01-01", "2015-01-01"]):
        year = int(date[:4])
        for rep in range(2 if ctx.tier == "quick" else 6):
            df = popgen.to_frame(popgen.population(rnd, year, 8, id_style="sparse"))
            try:
                engine.simulate(df, date, fill_missing=False)
            except Exception as ex:  # noqa: BLE001
                stats["skipped"].append(f"{date}: base population fails: {type(ex).__name__}")
                continue
            n = len(df)
            multi = [h for h, c in df["hh_id"].value_counts().items() if c > 1]
            fl = []
            # 1. missing / duplicate person identifiers
            fl.append(("missing-p_id", df.drop(columns=["p_id"]), None))
            for _ in range(2):
                i, j = rnd.sample(range(n), 2)
                d = df.copy()
                d.loc[j, "p_id"] = d.loc[i, "p_id"]
                fl.append((f"duplicate-p_id:rows {i},{j}", d, None))
            # 2. pointers to a missing person / to oneself, every pointer column, random rows
            for fk in FKS:
                for _ in range(2):
                    i = rnd.randrange(n)
                    d = df.copy()
                    d.loc[i, fk] = int(df["p_id"].max()) + rnd.randint(1, 999)
                    fl.append((f"dangling:{fk}:row {i}", d, None))
                    d = df.copy()
                    d.loc[i, fk] = d.loc[i, "p_id"]
                    fl.append((f"self-reference:{fk}:row {i}", d, None))
            # 3. household-level inputs varying within a household
            for c in [c for c in df.columns if c.endswith("_hh")]:
                if not multi:
                    continue
                h = rnd.choice(multi)
                rows = list(df.index[df["hh_id"] == h])
                i = rnd.choice(rows)
                d = df.copy()
                if d[c].dtype == bool:
                    d.loc[i, c] = not d.loc[i, c]
                else:
                    d.loc[i, c] = d.loc[i, c] + 7
                fl.append((f"varies-within-hh:{c}:row {i}", d, None))
            # 4. spouses with contradictory joint-assessment flags
            sp = list(df.index[df["p_id_ehepartner"] >= 0])
            if sp:
                i = rnd.choice(sp)
                d = df.copy()
                d.loc[i, "gemeinsam_veranlagt"] = not d.loc[i, "gemeinsam_veranlagt"]
                fl.append((f"contradictory-joint-assessment:row {i}", d, ["eink_st_y_sn"]))
            # 5. missing required column
            for c in rnd.sample(["bruttolohn_m", "alter", "hh_id", "kind", "wohnort_ost", "geburtsjahr"], 3):
                fl.append((f"missing-column:{c}", df.drop(columns=[c]), None))
            # 6. duplicate column names
            d = pd.concat([df, df[["alter"]]], axis=1)
            fl.append(("duplicate-column:alter", d, None))
            # 7. values that cannot be converted without changing them
            i = rnd.randrange(n)
            d = df.copy(); d["alter"] = d["alter"].astype(float); d.loc[i, "alter"] += 0.5
            fl.append((f"unconvertible:alter fractional:row {i}", d, None))
            d = df.copy(); d["geburtsjahr"] = d["geburtsjahr"].astype(float); d.loc[i, "geburtsjahr"] += 0.01
            fl.append((f"unconvertible:geburtsjahr + 0.01 (near-integer):row {i}", d, None))
            d = df.copy(); d["hh_id"] = d["hh_id"].astype(float) + 500000.0; d.loc[i, "hh_id"] += 0.4
            fl.append((f"unconvertible:hh_id 5e5 + 0.4 (near-integer):row {i}", d, None))
            d = df.copy(); d["kind"] = d["kind"].astype(int); d.loc[i, "kind"] = 2
            fl.append((f"unconvertible:kind=2:row {i}", d, None))
            d = df.copy(); d["wohnort_ost"] = d["wohnort_ost"].astype(float); d.loc[i, "wohnort_ost"] = 0.5
            fl.append((f"unconvertible:wohnort_ost=0.5:row {i}", d, None))
            d = df.copy(); d["bruttolohn_m"] = d["bruttolohn_m"].astype(object)
            fl.append(("unconvertible:object dtype bruttolohn_m", d, None))
            d = df.copy(); d["alter"] = d["alter"].astype(float); d.loc[i, "alter"] = float("nan")
            fl.append((f"unconvertible:alter NaN:row {i}", d, None))
            d = df.copy(); d["vermögen_bedürft"] = np.array([2**53 + 1] * n, dtype="int64")
            fl.append(("unconvertible:int64 2**53+1 into a float column", d, None))
            d = df.copy(); d["geburtsjahr"] = np.array([2**63 + year] * n, dtype="uint64")
            fl.append(("unconvertible:uint64 beyond int64 into an int column", d, None))
            # identifiers stored as uint64 with one value beyond the int64 range (e.g. hashed ids): wraps to a negative id if cast blindly
            d = df.copy(); pid = d["p_id"].to_numpy().astype("uint64"); pid[i] = np.uint64(2**63 + 5); d["p_id"] = pid
            fl.append((f"unconvertible:p_id uint64 2**63+5:row {i}", d, None))
            if multi:
                h = rnd.choice(multi)
                d = df.copy(); hh = d["hh_id"].to_numpy().astype("uint64"); hh[(df["hh_id"] == h).to_numpy()] = np.uint64(2**63 + 7); d["hh_id"] = hh
                fl.append((f"unconvertible:hh_id uint64 2**63+7:household {h}", d, None))
            d = df.copy(); al = d["alter"].to_numpy().astype("uint64"); al[i] = np.uint64(2**64 - 30); d["alter"] = al
            fl.append((f"unconvertible:alter uint64 2**64-30:row {i}", d, None))
            for what, d, tg in fl:
                expect_reject(d, date, what, res, stats, targets=tg)
            # pairs of faults: adding a second fault never turns a rejection into acceptance
            for _ in range(4 if ctx.tier == "quick" else 12):
                (w1, d1, _), (w2, d2, _) = rnd.sample([f for f in fl if f[1].shape == df.shape and list(f[1].columns) == list(df.columns)], 2)
                d = d1.copy()
                diff_cols = [c for c in df.columns if not d2[c].equals(df[c])]
                for c in diff_cols:
                    d[c] = d2[c]
                expect_reject(d, date, f"pair:{w1.split(':')[0]}+{w2.split(':')[0]}", res, stats)
            if len(res.samples) < 3:
                res.samples.append(dict(unit="fault injection", date=date, rows=n, faults=[w for w, _, _ in fl][:8]))


def coercion(ctx, res, stats):
    import numpy as np

    rnd = ctx.rng("c20b")
    types = popgen.columns()
    for date in (["2024-01-01"] if ctx.tier == "quick" else ["2024-01-01", "2019-01-01"]):
        year = int(date[:4])
        for rep in range(2 if ctx.tier == "quick" else 5):
            df = popgen.to_frame(popgen.population(rnd, year, 8, id_style="dense"))
            # make float inputs exactly representable in float32 so that every variant holds the same numbers
            for c, t in types.items():
                if c in df.columns and t is float:
                    df[c] = df[c].astype("float32").astype("float64")
            base, _ = engine.simulate(df, date, fill_missing=False)
            variants = []
            d = df.copy()
            for c, t in types.items():
                if c not in d.columns:
                    continue
                if t is int:
                    mx = int(d[c].max()) if len(d) else 0
                    mn = int(d[c].min()) if len(d) else 0
                    cands = ["float64", "int32"] + (["int16"] if -2**15 <= mn and mx < 2**15 else []) + (["uint8"] if 0 <= mn and mx < 256 else []) + (["int8"] if -128 <= mn and mx < 128 else [])
                    d[c] = d[c].astype(rnd.choice(cands))
                elif t is float:
                    d[c] = d[c].astype(rnd.choice(["float32", "float64", "int64" if (d[c] == d[c].round()).all() else "float32"]))
                elif t is bool:
                    d[c] = d[c].astype(rnd.choice(["int64", "float64", "int8", "bool"]))
            variants.append(("mixed narrower / wider dtypes", d))
            d = df.copy()
            for c, t in types.items():
                if c in d.columns and t is bool:
                    d[c] = d[c].astype("float64")
                if c in d.columns and t is int:
                    d[c] = d[c].astype("float64")
            variants.append(("all ints and bools as float64", d))
            d = df.copy()
            for c, t in types.items():
                if c in d.columns and t is int and len(d):
                    mn, mx = int(d[c].min()), int(d[c].max())
                    d[c] = d[c].astype(next(ty for ty in ("int8", "int16", "int32", "int64") if np.iinfo(ty).min <= mn and mx <= np.iinfo(ty).max))
                elif c in d.columns and t is float:
                    d[c] = d[c].astype("float32")
            variants.append(("every int column in its narrowest signed dtype, floats as float32", d))
            for what, d in variants:
                stats["coercion_variants"] += 1
                try:
                    with warnings.catch_warnings(record=True) as w:
                        warnings.simplefilter("always")
                        out, w2 = engine.simulate(d, date, fill_missing=False)
                except Exception as ex:  # noqa: BLE001
                    res.add_violation(f"coercion-raises:{what}", f"losslessly convertible dtype variant ({what}) is rejected on {date}: {type(ex).__name__}: {str(ex)[:200]}",
                                      dict(kind="coercion-raises", variant=what, date=date, dtypes={c: str(d[c].dtype) for c in d.columns if str(d[c].dtype) != str(df[c].dtype)}), True)
                    continue
                if not any("converted" in str(x.message) for x in w2):
                    res.add_violation(f"coercion-silent:{what}", f"automatic dtype conversion ({what}) on {date} was not announced by a warning",
                                      dict(kind="coercion-silent", variant=what, date=date), True)
                for t in base.columns:
                    stats["coercion_columns_compared"] += 1
                    if not metam.col_close(out[t].to_numpy(), base[t].to_numpy(), tol=1e-12):
                        wtn = metam.first_diff(out[t].to_numpy(), base[t].to_numpy(), list(df["p_id"]))
                        res.add_violation(f"coercion-changes:{t}", f"dtype variant ({what}) of the same population changes {t} on {date}: {wtn}",
                                          dict(kind="coercion-changes", variant=what, date=date, target=t, witness=wtn), True)


def u9(ctx, res, stats):
    """cell-level correspondence of the coercion model, and table-level correspondence of `accept` on small tables"""
    impl.setup()
    import numpy as np
    import pandas as pd

    from _gettsim.gettsim_typing import convert_series_to_internal_type
    from _gettsim.interface import _process_and_check_data

    rnd = ctx.rng("u9")
    cells = []
    vals = [0, 1, 2, -1, 7, 2**53, 2**53 + 1, -(2**53) - 1, 2**62 + 1, 0.0, 1.0, 0.5, 2.0, -3.0, 1e300, float("nan"), float("inf"), True, False, "obj",
            1988.01, 35.0002, 500000.4, 1.000001, 0.999999, 1e-7, -2.00001, 123456.0625]      # near-integers: still not integers
    for ty in ("float", "int", "bool"):
        for v in vals:
            if (ty == "bool" and isinstance(v, bool)) or (ty == "int" and isinstance(v, int) and not isinstance(v, bool)) or (ty == "float" and isinstance(v, float)):
                continue        # already of the documented type: the converter is not called
            if isinstance(v, bool):
                s = pd.Series([v], dtype="bool"); raw = f"(RBool {'true' if v else 'false'})"
            elif isinstance(v, int):
                s = pd.Series([v], dtype="int64"); raw = f"(RInt {C.cz(v)})"
            elif isinstance(v, float):
                s = pd.Series([v], dtype="float64"); raw = f"(RFloat {C.cxq(v)})"
            else:
                s = pd.Series([object()], dtype="object"); raw = "RObj"
            try:
                o = convert_series_to_internal_type(s, {"float": float, "int": int, "bool": bool}[ty])
                x = o.iloc[0]
                got = ("ok", str(o.dtype), (float(x) if ty == "float" else int(x) if ty == "int" else bool(x)))
            except Exception as ex:  # noqa: BLE001
                got = ("err", type(ex).__name__)
            cells.append(dict(ty=ty, value=repr(v), raw=raw, impl=got))
    ity = {"float": "IFloat", "int": "IInt", "bool": "IBool"}
    show = ('(fun r => match r with Ok (RInt z) => "i:" ++ show_z z | Ok (RFloat x) => "f:" ++ show_xq x | Ok (RBool b) => if b then "b:1" else "b:0" '
            '| Ok RObj => "o" | Err _ => "err" end)')
    exprs = [f"String.concat \";\" (map {show} [" + "; ".join(f"convert_cell true {ity[c['ty']]} {c['raw']}" for c in cells) + "])"]
    import coqrun

    r = coqrun.eval_strings("U9_cells", PRELUDE + "From GettsimModel Require Import Corr.\nOpen Scope string_scope.\n", exprs)
    if r is None:
        res.machinery_errors.append("U9: model evaluation failed")
        return
    for c, m in zip(cells, r[0].split(";")):
        stats["u9_cells"] += 1
        g = c["impl"]
        if m == "err":
            ok = g[0] == "err"
        elif g[0] != "ok":
            ok = False
        else:
            tag, val = m.split(":", 1)
            if tag == "i":
                ok = isinstance(g[2], int) and not isinstance(g[2], bool) and g[2] == int(val)
            elif tag == "b":
                ok = g[2] is (val == "1")
            else:
                mv = M._num(val)
                ok = isinstance(g[2], float) and (M.close(g[2], mv) if not isinstance(mv, float) else (g[2] == mv or (g[2] != g[2] and mv != mv)))
        if not ok:
            lossy = g[0] == "ok" and c["value"] not in ("'obj'",) and _changed(c["value"], g[2])
            res.add_violation(f"u9:{c['ty']}:{c['value']}", f"coercion of {c['value']} to {c['ty']}: implementation {g}, model {m}" + (" — the value is changed silently" if lossy else ""),
                              dict(kind="u9", **c, model=m), lossy)
    # table-level accept on small synthetic tables
    tables = []
    for _ in range(60 if ctx.tier == "quick" else 400):
        n = rnd.randint(1, 5)
        pid = rnd.sample(range(0, 30), n)
        hh = [rnd.choice([0, 1]) for _ in range(n)]
        t = dict(p_id=list(pid), hh_id=hh, p_id_ehepartner=[-1] * n, p_id_elternteil_1=[-1] * n, miete_hh=[float(100 * h) for h in hh])
        f = rnd.choice(["none", "dup", "dangling", "self", "varies", "none"])
        if f == "dup" and n > 1:
            t["p_id"][1] = t["p_id"][0]
        elif f == "dangling":
            t["p_id_ehepartner"][rnd.randrange(n)] = 99
        elif f == "self":
            i = rnd.randrange(n); t["p_id_elternteil_1"][i] = t["p_id"][i]
        elif f == "varies" and n > 1:
            # one member of a household of two or more gets another value; the members stand anywhere (not adjacent)
            big = [h for h in (0, 1) if hh.count(h) > 1]
            if not big:
                t["hh_id"] = hh = [0] * n; t["miete_hh"] = [0.0] * n; big = [0]
            i = rnd.choice([k for k in range(n) if hh[k] == big[0]])
            t["miete_hh"][i] += 150.0
        elif n > 1 and rnd.random() < 0.5:
            t["p_id_ehepartner"][0] = t["p_id"][1]
        tables.append(t)
    outs = []
    for t in tables:
        df = pd.DataFrame(t)
        try:
            _process_and_check_data(df)
            outs.append(True)
        except Exception:  # noqa: BLE001
            outs.append(False)

    def col(name, vals, kind):
        if kind == "f":
            return f'{{| rc_name := "{name}"; rc_kind := KF; rc_vals := [' + "; ".join(f"RFloat {C.cxq(v)}" for v in vals) + "] |}"
        return f'{{| rc_name := "{name}"; rc_kind := KI; rc_vals := [' + "; ".join(f"RInt {C.cz(v)}" for v in vals) + "] |}"
    exprs = ["String.concat \"\" (map (fun t => if accept t then \"1\" else \"0\") [" + "; ".join(
        "[" + "; ".join(col(k, v, "f" if k == "miete_hh" else "i") for k, v in t.items()) + "]" for t in tables) + "])"]
    r = coqrun.eval_strings("U9_tables", PRELUDE + "Open Scope string_scope.\n", exprs)
    if r is None:
        res.machinery_errors.append("U9: table model evaluation failed")
        return
    for t, o, m in zip(tables, outs, r[0]):
        stats["u9_tables"] += 1
        if o != (m == "1"):
            res.add_violation("u9:accept", f"input checks: implementation {'accepts' if o else 'rejects'} but the model {'accepts' if m == '1' else 'rejects'} {t}",
                              dict(kind="u9-table", table=t, implementation_accepts=o), False)


def _changed(vrepr, got):
    try:
        v = eval(vrepr)  # noqa: S307
        return (isinstance(v, (int, float)) and not isinstance(v, bool) and (v != got)) and not (isinstance(v, float) and math.isnan(v))
    except Exception:  # noqa: BLE001
        return False


def run(ctx, res):
    impl.setup()
    stats = dict(faults=0, by_class={}, rejected_with={}, coercion_variants=0, coercion_columns_compared=0, u9_cells=0, u9_tables=0, skipped=[])
    u9(ctx, res, stats)
    faults(ctx, res, stats)
    coercion(ctx, res, stats)
    res.evaluations += stats["faults"] + stats["coercion_variants"] + stats["u9_cells"] + stats["u9_tables"]
    res.distinct += stats["faults"] + stats["coercion_variants"] + stats["u9_cells"]
    res.extra["engine"] = stats
    res.rule = ("fault injection into generated valid populations through the public API: every fault class of the property (missing / duplicate "
                "p_id; each of the four pointer columns dangling or self-referential; every *_hh input varying within a household; contradictory "
                "joint-assessment flags; missing required columns; duplicate column names; fractional / out-of-range / object / NaN / too large "
                "values for the documented type) at random eligible rows, and pairs of faults — each must raise, as submitted and once more with the rows of the faulty table re-ordered (group members not adjacent); dtype variants of a valid "
                "population (narrower ints, float32, ints and bools as floats) must give unchanged results and a conversion warning. U9: the "
                "model's convert_cell vs convert_series_to_internal_type on 60 (type, value) cells and `accept` vs _process_and_check_data on "
                "generated small tables. distinct = distinct faults / variants / cells.")


def replay(payload):
    print(json.dumps(payload["payload"], indent=1, default=str, ensure_ascii=False)[:6000])
    return 1
