"""C05 — supplying a computed column as data is equivalent to computing it."""
from __future__ import annotations

import json

import coqrun
import engine
import impl
import metam
import popgen

PRELUDE = "From GettsimModel Require Import Engine Dag.\nFrom GettsimGen Require Import GenDag GenConfig.\n"


def obligations():
    return [dict(
        name="c05_unique_names",
        stmt="forallb (fun od => topo_ok dag_data_cols [] (subgraph (snd od) default_targets)) "
             "(filter (fun od => Z.leb 735599 (fst od)) dags) = true",
        proof="vm_cast_no_check (@eq_refl bool true).",
        what="on every dumped graph from 2015-01-01 on: the nodes the default targets need have unique names and read only data "
             "columns or earlier nodes (premise NoDup of C05_override_equivalent, via C05_names_unique)")]


def loader_view(o, extra_cols):
    """names -> (kind, args) of the graph the real loader builds when extra data columns are present"""
    import dagdump

    rules = json.loads((impl.C.GEN / "rules.json").read_text(encoding="utf-8"))
    cfg = dict(rules["config"])
    cfg["TYPES_INPUT_VARIABLES"] = dict(cfg["TYPES_INPUT_VARIABLES"])
    for c in extra_cols:
        cfg["TYPES_INPUT_VARIABLES"].setdefault(c, "float")
    d = dagdump.dump_date(o, cfg)
    return d


def declared_kinds(o):
    """numpy dtype kind a SUPPLIED column of that name is converted to (interface._convert_data_to_correct_types:
    the rule's return annotation, element type for array rules)"""
    import datetime
    import typing

    from _gettsim.functions_loader import _load_functions
    from _gettsim.policy_environment import load_functions_for_date
    out = {}
    for name, f in _load_functions(load_functions_for_date(datetime.date.fromordinal(o))).items():
        t = getattr(f, "__annotations__", {}).get("return")
        args = typing.get_args(t)
        if args:
            t = args[0]
        k = {float: "f", int: "i", bool: "b"}.get(t)
        if k:
            out[name] = k
    return out


def big_family_population(rnd, year, n_hh):
    """a population in which some Kindergeld recipient has at least four children"""
    best = None
    for _ in range(60):
        pop = popgen.population(rnd, year, n_hh, templates=["couple_kids", "couple_kids", "single_parent", "patchwork", "married", "single"],
                                id_style="sparse")
        cnt = {}
        for p in pop:
            if p["p_id_kindergeld_empf"] >= 0:
                cnt[p["p_id_kindergeld_empf"]] = cnt.get(p["p_id_kindergeld_empf"], 0) + 1
        m = max(cnt.values(), default=0)
        if best is None or m > best[0]:
            best = (m, pop)
        if m >= 4:
            break
    return best[1]


def run(ctx, res):
    impl.setup()
    import warnings

    res.obligations += coqrun.prove("C05", PRELUDE + "Open Scope Z_scope.\n", obligations(), shards=1, timeout=1500)
    for o in res.obligations:
        if not o["ok"] and o["name"].startswith("c05_"):
            res.add_violation(f"obligation:{o['name']}", f"obligation {o['name']} no longer checks: {o['err'][-300:]}",
                              dict(kind="obligation", obligation=o["name"], err=o["err"]), False)
    rnd = ctx.rng("c05")
    ds = metam.dag_dates()
    dates = [impl.ordinal(x) for x in (["2024-01-01", "2019-01-01"] if ctx.tier == "quick" else
                                        ["2024-01-01", "2019-01-01", "2015-01-01", "2021-07-01", "2023-07-01", "2017-07-01", "2010-01-01"])]
    stats = dict(nodes_overridden=0, columns_compared=0, bit_identical=0, warned=0, loader_views=0, skipped={})
    for o in [d for d in dates if d in ds]:
        d = metam.dag_for(o)
        year = int(impl.iso(o)[:4])
        nodes = metam.default_nodes(d)
        tg = [t for t in d["targets"] if t in nodes]
        df = popgen.to_frame(popgen.population(rnd, year, 6 if ctx.tier == "quick" else 12, id_style="sparse")
                             + [dict(p, p_id=p["p_id"] + 100000, hh_id=p["hh_id"] + 100000,
                                     **{k: (p[k] + 100000 if p[k] >= 0 else -1) for k in p if k.startswith("p_id_")})
                                for p in big_family_population(rnd, year, 3)])
        df = df.sample(frac=1.0, random_state=rnd.randrange(10**6)).reset_index(drop=True)
        try:
            base, _ = engine.simulate(df, o, targets=nodes)
        except Exception as ex:  # noqa: BLE001
            stats["skipped"][impl.iso(o)] = f"{type(ex).__name__}: {str(ex)[:100]}"
            continue
        keys = list(df["p_id"])
        pick = nodes if ctx.tier == "thorough" else rnd.sample(nodes, min(len(nodes), 40))
        # nodes whose computed dtype is not the type a supplied column is converted to are always tried
        dk = declared_kinds(o)
        mism = [n for n in nodes if n in dk and base[n].dtype.kind in "fib" and base[n].dtype.kind != dk[n]]
        stats.setdefault("dtype_differs_from_declared", {})[impl.iso(o)] = mism[:20]
        pick = list(dict.fromkeys(mism + pick))
        for n in pick:
            data2 = df.copy()
            data2[n] = base[n].to_numpy()
            try:
                with warnings.catch_warnings(record=True):
                    out, w = engine.simulate(data2, o, targets=[t for t in tg if t != n])
            except Exception as ex:  # noqa: BLE001
                res.add_violation(f"raises:{n}", f"supplying the computed column {n} on {impl.iso(o)} makes the run fail: {type(ex).__name__}: {str(ex)[:200]}",
                                  dict(kind="raises", date=impl.iso(o), node=n, error=f"{type(ex).__name__}: {ex}"[:400]), True)
                continue
            stats["nodes_overridden"] += 1
            names = " ".join(str(x.message) for x in w)
            if n in names:
                stats["warned"] += 1
            elif d["nodes"][n]["kind"]["k"] not in ("rule", "join"):
                stats["derived_without_warning"] = stats.get("derived_without_warning", 0) + 1
            else:
                res.add_violation(f"no-warning:{n}", f"supplying {n} (overrides a rule) on {impl.iso(o)} raised no warning naming it",
                                  dict(kind="no-warning", date=impl.iso(o), node=n, warnings=names[:300]), True)
            for t in tg:
                if t == n:
                    continue
                stats["columns_compared"] += 1
                a, b = out[t].to_numpy(), base[t].to_numpy()
                if metam.col_equal(a, b):
                    stats["bit_identical"] += 1
                elif metam.is_id(t) and metam.same_partition(a, b):
                    pass
                elif not metam.col_close(a, b):
                    wtn = metam.first_diff(a, b, keys)
                    res.add_violation(f"value:{n}->{t}", f"supplying the computed column {n} on {impl.iso(o)} changes {t}: {wtn} "
                                      f"(supplied dtype {base[n].dtype})",
                                      dict(kind="value", date=impl.iso(o), node=n, target=t, witness=wtn, supplied_dtype=str(base[n].dtype),
                                           supplied_values=[metam._py(v) for v in base[n].to_numpy()[:30]], p_ids=keys[:30]), True)
                    break
        # the same with the data given as a dict of Series whose index labels count downwards, the supplied column taken "straight
        # from a previous result" (fresh RangeIndex): a dict of Series is read positionally, labels must not matter
        import pandas as pd

        lab = list(range(len(df) * 2, len(df), -1))
        varying = [x for x in pick if x in base.columns and base[x].nunique() > 1]
        grp = [x for x in nodes if x.endswith(("_hh", "_fg", "_bg")) and x in base.columns and base[x].nunique() > 1]
        for n in list(dict.fromkeys(grp[:3] + varying))[: (6 if ctx.tier == "quick" else 30)]:
            dd = {c: pd.Series(df[c].to_numpy(), index=lab, name=c) for c in df.columns}
            dd[n] = pd.Series(base[n].to_numpy(), name=n)
            try:
                with warnings.catch_warnings(record=True):
                    out, _w = engine.simulate(dd, o, targets=[t for t in tg if t != n])
            except Exception as ex:  # noqa: BLE001
                res.add_violation(f"raises-dict:{n}", f"supplying the computed column {n} in a dict of Series on {impl.iso(o)} makes the run fail: {type(ex).__name__}: {str(ex)[:200]}",
                                  dict(kind="raises", date=impl.iso(o), node=n, form="dict of Series", error=f"{type(ex).__name__}: {ex}"[:400]), True)
                continue
            stats["dict_form_overrides"] = stats.get("dict_form_overrides", 0) + 1
            for t in tg:
                if t == n:
                    continue
                a, b = out[t].to_numpy(), base[t].to_numpy()
                if len(a) != len(b) or not (metam.col_equal(a, b) or (metam.is_id(t) and metam.same_partition(a, b)) or metam.col_close(a, b)):
                    wtn = metam.first_diff(a, b, keys) if len(a) == len(b) else f"{len(a)} rows instead of {len(b)}"
                    res.add_violation(f"value-dict:{n}->{t}", f"supplying the computed column {n} in a dict of Series (index labels counting downwards, supplied "
                                      f"column with a fresh RangeIndex) on {impl.iso(o)} changes {t}: {wtn}",
                                      dict(kind="value", date=impl.iso(o), node=n, target=t, form="dict of Series with differing index labels", witness=wtn), True)
                    break
        # loader view: supplying n must remove exactly node n and leave every other definition unchanged
        for n in rnd.sample(nodes, 6 if ctx.tier == "quick" else 40):
            v = loader_view(o, [n])
            stats["loader_views"] += 1
            if "error" in v:
                res.add_violation(f"loader:{n}", f"loader fails when {n} is a data column: {v['error']}", dict(kind="loader", node=n, error=v["error"]), True)
                continue
            derived = lambda kd: kd["k"] in ("timeconv", "group_agg", "pid_agg")      # noqa: E731
            for k, nd in d["nodes"].items():
                nv = v["nodes"].get(k)
                if nv is None:
                    if k == n and derived(nd["kind"]):
                        continue        # a derived function (conversion / aggregate) is simply not created when a column of its name is supplied
                    if k in nodes:
                        res.add_violation(f"loader:{n}:{k}", f"with {n} supplied as data the loader no longer creates node {k} ({impl.iso(o)})",
                                          dict(kind="loader", date=impl.iso(o), node=n, lost=k), True)
                    continue
                if k != n and k in nodes and (nv["args"] != nd["args"] or nv["kind"] != nd["kind"]) and not (derived(nd["kind"]) and derived(nv["kind"])):
                    # (a derived node may be re-derived from the supplied column, e.g. x_m from a supplied x_y: same values; rules must not change)
                    res.add_violation(f"loader:{n}:{k}", f"with {n} supplied as data node {k} is defined differently: {nd['kind']}/{nd['args']} -> {nv['kind']}/{nv['args']}",
                                      dict(kind="loader", date=impl.iso(o), node=n, changed=k, before=nd, after=nv), True)
            if not v["nodes"].get(n, {}).get("overridden", False) and not derived(d["nodes"][n]["kind"]):
                res.add_violation(f"loader-not-overridden:{n}", f"{n} supplied as data is not treated as overriding its function", dict(kind="loader", node=n), True)
        if len(res.samples) < 4:
            res.samples.append(dict(unit="override", date=impl.iso(o), rows=len(df), overridden_nodes=pick[:5]))
    res.evaluations += stats["nodes_overridden"] + stats["loader_views"]
    res.distinct += stats["nodes_overridden"] + stats["loader_views"]
    res.extra["engine"] = stats
    res.rule = ("per date: one run with every node of the default targets' graph as target; then for 40 sampled nodes (thorough: every node) the "
                "node's computed column is added to the data and all default targets are recomputed: each must equal the first run "
                "(bit-identical counted; ids up to renumbering; floats within 1e-9 otherwise a violation), and the override must be "
                "announced by a warning naming the column; nodes whose computed dtype differs from the declared type a supplied column is converted to are always included, and every population contains a Kindergeld recipient with four or more children. Loader view: the graph the real loader builds with the column supplied equals the "
                "Overrides are repeated with the data as a dict of Series whose index labels count downwards while the supplied column carries a fresh RangeIndex. original graph minus that node. distinct = distinct (date, node) overrides.")


def replay(payload):
    print(json.dumps(payload["payload"], indent=1, default=str, ensure_ascii=False)[:6000])
    return 1
