"""C12 — derived units (marriage, tax, family, needs, housing) partition correctly."""
from __future__ import annotations

import itertools
import json

import common as C
import coqrun
import engine
import impl
import modelio as M
import popgen

PRELUDE = "From GettsimModel Require Import Groupings CoupleSpec FgSpec.\nOpen Scope Z_scope.\n"


def obligations(tier):
    n = 3
    return [
        dict(name="c12_fg_exhaustive", stmt=f"fg_ok_upto {n} = true", proof="vm_cast_no_check (@eq_refl bool true).",
             what=f"fg_id: reference partition and order independence for every well-formed pointer structure of up to {n} persons, every row order"),
        dict(name="c12_eg_exhaustive", stmt=f"eg_ok_upto {n} = true", proof="vm_cast_no_check (@eq_refl bool true).",
             what=f"eg_id: same, up to {n} persons"),
        dict(name="c12_ehe_sn_exhaustive", stmt=f"ehe_sn_ok_upto {n} = true", proof="vm_cast_no_check (@eq_refl bool true).",
             what=f"ehe_id, sn_id: same for the married variants (jointly assessed or not); sn within ehe, eg within fg; up to {n} persons"),
    ]


# ---------------------------------------------------------------------------
# structures


FIELDS = ["p_id", "hh_id", "alter", "p_id_einstandspartner", "p_id_ehepartner", "p_id_elternteil_1", "p_id_elternteil_2",
          "eigenbedarf_gedeckt", "gemeinsam_veranlagt"]


def children_of(ps, p):
    out = []
    for x in ps:
        if x["p_id_elternteil_1"] >= 0 and x["p_id_elternteil_1"] == p:
            out.append(x["p_id"])
        if x["p_id_elternteil_2"] >= 0 and x["p_id_elternteil_2"] == p:
            out.append(x["p_id"])
    return out


def wf(ps, ages=True):
    by = {x["p_id"]: x for x in ps}
    if len(by) != len(ps):
        return False
    for x in ps:
        for k in ("p_id_einstandspartner", "p_id_ehepartner", "p_id_elternteil_1", "p_id_elternteil_2"):
            q = x[k]
            if q >= 0 and (q == x["p_id"] or q not in by):
                return False
        e = x["p_id_einstandspartner"]
        if e >= 0 and (by[e]["p_id_einstandspartner"] != x["p_id"] or by[e]["hh_id"] != x["hh_id"]):
            return False
        h = x["p_id_ehepartner"]
        if h >= 0 and (h != e or by[h]["p_id_ehepartner"] != x["p_id"] or by[h]["gemeinsam_veranlagt"] != x["gemeinsam_veranlagt"]):
            return False
        for k in ("p_id_elternteil_1", "p_id_elternteil_2"):
            if ages and x[k] >= 0 and not x["alter"] + 14 < by[x[k]]["alter"]:
                return False
        if x["p_id_elternteil_1"] >= 0 and x["p_id_elternteil_1"] == x["p_id_elternteil_2"]:
            return False
        par = [by[x[k]] for k in ("p_id_elternteil_1", "p_id_elternteil_2") if x[k] >= 0]
        elig = x["alter"] < 25 and not children_of(ps, x["p_id"]) and any(p["hh_id"] == x["hh_id"] for p in par)
        if elig:
            if e >= 0:
                return False
            co = [p for p in par if p["hh_id"] == x["hh_id"]]
            if len(co) == 2 and co[0]["p_id_einstandspartner"] != co[1]["p_id"]:
                return False
    return True


def components(n, adj):
    lab = list(range(n))
    for _ in range(n):
        for i in range(n):
            for j in range(n):
                if adj(i, j) or adj(j, i):
                    m = min(lab[i], lab[j])
                    lab[i] = lab[j] = m
    # full closure
    changed = True
    while changed:
        changed = False
        for i in range(n):
            for j in range(n):
                if (adj(i, j) or adj(j, i)) and lab[i] != lab[j]:
                    m = min(lab[i], lab[j])
                    lab[i] = lab[j] = m
                    changed = True
    return lab


def reference(ps):
    """reference partitions from hh_concepts.md (as labels per row)"""
    n = len(ps)

    def couple(k):
        return lambda i, j: ps[i][k] >= 0 and ps[i][k] == ps[j]["p_id"]

    def sn(i, j):
        return ps[i]["p_id_ehepartner"] >= 0 and ps[i]["p_id_ehepartner"] == ps[j]["p_id"] and ps[i]["gemeinsam_veranlagt"] and ps[j]["gemeinsam_veranlagt"]

    def fg(i, j):
        a, b = ps[i], ps[j]
        if a["p_id_einstandspartner"] >= 0 and a["p_id_einstandspartner"] == b["p_id"]:
            return True
        is_child = (b["p_id_elternteil_1"] >= 0 and b["p_id_elternteil_1"] == a["p_id"]) or (b["p_id_elternteil_2"] >= 0 and b["p_id_elternteil_2"] == a["p_id"])
        return is_child and b["hh_id"] == a["hh_id"] and b["alter"] < 25 and not children_of(ps, b["p_id"])

    ref = dict(eg_id=components(n, couple("p_id_einstandspartner")), ehe_id=components(n, couple("p_id_ehepartner")),
               sn_id=components(n, sn), fg_id=components(n, fg))
    # bg: a family member under 25 covering its own needs is a singleton, the rest of the family one unit
    fgl = ref["fg_id"]
    ref["bg_id"] = [(-1 - i) if (ps[i]["alter"] < 25 and ps[i]["eigenbedarf_gedeckt"]) else fgl[i] for i in range(n)]
    return ref


def part(ids, pids):
    groups = {}
    for p, i in zip(pids, ids):
        groups.setdefault(i, set()).add(p)
    return frozenset(frozenset(s) for s in groups.values())


def call_builder(fn, cols, date="2024-01-01"):
    """call a builder of groupings.py by parameter NAME; parameter groups (arguments named *_params) are taken from the
    environment of `date` — the unit definitions do not depend on the date, so any date must give the same ids"""
    import inspect

    kw = {}
    for name in inspect.signature(fn).parameters:
        if name.endswith("_params"):
            kw[name] = impl.env(impl.ordinal(date))[0][name[:-7]]
        else:
            kw[name] = cols[name]
    return fn(**kw)


def run_builders(ps, date="2024-01-01"):
    import numpy as np

    from _gettsim import groupings as G

    a = {k: np.array([x[k] for x in ps], dtype=("bool" if k in ("eigenbedarf_gedeckt", "gemeinsam_veranlagt") else "int64")) for k in FIELDS}
    out = {}
    out["eg_id"] = call_builder(G.eg_id_numpy, a, date)
    out["ehe_id"] = call_builder(G.ehe_id_numpy, a, date)
    try:
        out["sn_id"] = call_builder(G.sn_id_numpy, a, date)
    except ValueError:
        out["sn_id"] = None
    out["fg_id"] = call_builder(G.fg_id_numpy, a, date)
    out["bg_id"] = call_builder(G.bg_id_numpy, dict(a, fg_id=out["fg_id"]), date)
    return {k: (None if v is None else [int(z) for z in v]) for k, v in out.items()}


def coq_person(x):
    b = lambda v: "true" if v else "false"  # noqa: E731
    return ("{| pid := %s; hh := %s; alter := %s; einst := %s; ehep := %s; elt1 := %s; elt2 := %s; eigenb := %s; gemv := %s |}" % (
        C.cz(x["p_id"]), C.cz(x["hh_id"]), C.cz(x["alter"]), C.cz(x["p_id_einstandspartner"]), C.cz(x["p_id_ehepartner"]),
        C.cz(x["p_id_elternteil_1"]), C.cz(x["p_id_elternteil_2"]), b(x["eigenbedarf_gedeckt"]), b(x["gemeinsam_veranlagt"])))


def enum_structs(n, rnd, limit):
    """all (or a random sample of) well-formed structures with n persons over small option sets"""
    opts = []
    for i in range(n):
        others = [-1] + [j for j in range(n) if j != i]
        o = []
        for hh in ([0] if i == 0 else [0, 1]):
            for age in (10, 20, 30, 60):
                for e in others:
                    for p1 in others:
                        for p2 in ([-1] if p1 < 0 else others):
                            o.append((hh, age, e, p1, p2))
        opts.append(o)
    total = 1
    for o in opts:
        total *= len(o)
    if total <= limit:
        it = itertools.product(*opts)
    else:
        it = (tuple(rnd.choice(o) for o in opts) for _ in range(limit))
    for combo in it:
        ps = [dict(p_id=i, hh_id=c[0], alter=c[1], p_id_einstandspartner=c[2], p_id_ehepartner=-1, p_id_elternteil_1=c[3],
                   p_id_elternteil_2=c[4], eigenbedarf_gedeckt=False, gemeinsam_veranlagt=False) for i, c in enumerate(combo)]
        if wf(ps):
            yield ps


def variants(ps, rnd):
    """married / flag variants and sparse unsorted relabelling of one structure"""
    out = [ps]
    if any(x["p_id_einstandspartner"] >= 0 for x in ps):
        for gv in (True, False):
            out.append([dict(x, p_id_ehepartner=x["p_id_einstandspartner"], gemeinsam_veranlagt=gv) if x["p_id_einstandspartner"] >= 0 else x for x in ps])
    if any(x["alter"] < 25 for x in ps):
        out.append([dict(x, eigenbedarf_gedeckt=(x["alter"] < 25)) for x in ps])
    # relabel ids
    ids = rnd.sample(range(0, 900), len(ps))
    rel = {x["p_id"]: ids[i] for i, x in enumerate(ps)}
    hr = {h: rnd.randrange(0, 10**5) * 2 + h for h in {x["hh_id"] for x in ps}}
    q = []
    for x in out[-1]:
        y = dict(x)
        y["p_id"] = rel[x["p_id"]]
        y["hh_id"] = hr[x["hh_id"]]
        for k in ("p_id_einstandspartner", "p_id_ehepartner", "p_id_elternteil_1", "p_id_elternteil_2"):
            y[k] = rel[x[k]] if x[k] >= 0 else -1
        q.append(y)
    out.append(q)
    return out


def u3(ctx, res):
    impl.setup()
    rnd = ctx.rng("u3")
    nmax = 3 if ctx.tier == "quick" else 4
    stats = dict(structures=0, orders=0, by_n={}, model_cases=0, differences=0)
    bad = []
    model_cases = []
    for n in range(1, nmax + 1):
        lim = 400000 if ctx.tier == "quick" else 3000000
        cnt = 0
        for base in enum_structs(n, rnd, lim):
            for ps in variants(base, rnd):
                cnt += 1
                ref = reference(ps)
                pids = [x["p_id"] for x in ps]
                want = {k: part(v, pids) for k, v in ref.items()}
                orders = list(itertools.permutations(range(n))) if n <= 4 else [rnd.sample(range(n), n) for _ in range(20)]
                for od in orders:
                    qs = [ps[i] for i in od]
                    got = run_builders(qs)
                    stats["orders"] += 1
                    qp = [x["p_id"] for x in qs]
                    for k in ("eg_id", "ehe_id", "sn_id", "fg_id", "bg_id"):
                        if got[k] is None:
                            bad.append(dict(kind="raises on consistent flags", builder=k, persons=qs))
                            continue
                        if part(got[k], qp) != want[k]:
                            bad.append(dict(kind="partition differs from the unit definition", builder=k, persons=qs, ids=got[k],
                                            expected=[sorted(s) for s in want[k]]))
                    if len(model_cases) < (300 if ctx.tier == "quick" else 3000) and rnd.random() < 0.02:
                        model_cases.append((qs, got))
        stats["by_n"][n] = cnt
        stats["structures"] += cnt
    # random larger structures from the population generator (patchwork, three generations, ...)
    for _ in range(100 if ctx.tier == "quick" else 1500):
        pop = popgen.population(rnd, 2024, rnd.randint(1, 4), id_style=rnd.choice(["dense", "sparse", "unsorted"]))
        ps = [dict(p_id=x["p_id"], hh_id=x["hh_id"], alter=x["alter"], p_id_einstandspartner=x["p_id_einstandspartner"],
                   p_id_ehepartner=x["p_id_ehepartner"], p_id_elternteil_1=x["p_id_elternteil_1"], p_id_elternteil_2=x["p_id_elternteil_2"],
                   eigenbedarf_gedeckt=x["eigenbedarf_gedeckt"], gemeinsam_veranlagt=x["gemeinsam_veranlagt"]) for x in pop]
        if not wf(ps):
            continue
        ref = reference(ps)
        pids = [x["p_id"] for x in ps]
        want = {k: part(v, pids) for k, v in ref.items()}
        for _o in range(4):
            qs = rnd.sample(ps, len(ps))
            got = run_builders(qs)
            stats["orders"] += 1
            qp = [x["p_id"] for x in qs]
            for k in ("eg_id", "ehe_id", "sn_id", "fg_id", "bg_id"):
                if got[k] is None or part(got[k], qp) != want[k]:
                    bad.append(dict(kind="partition differs from the unit definition", builder=k, persons=qs, ids=got[k],
                                    expected=[sorted(s) for s in want[k]]))
            if len(model_cases) < (400 if ctx.tier == "quick" else 4000):
                model_cases.append((qs, got))
        stats["structures"] += 1
    # model == implementation (raw ids, numbering included)
    exprs = []
    for qs, _got in model_cases:
        pl = "[" + "; ".join(coq_person(x) for x in qs) + "]"
        exprs.append(f"json_val (VList (map (fun l => VList (map VInt l)) (let ps := {pl} in let fg := fg_id ps in "
                     f"[eg_id ps; ehe_id ps; sn_id_tot ps; fg; bg_id fg ps; "
                     f"map (fun b : bool => if b then 1 else 0) [couple_wf_b einst ps; couple_wf_b ehep ps; flags_agree_b ps; fg_wf_b ps]])))")
    import concurrent.futures as cf

    shards = [list(range(i, len(exprs), 8)) for i in range(8)]

    def one(a):
        k, idx = a
        if not idx:
            return []
        r, _ = M.eval_json(f"U3_{k}", PRELUDE + "From GettsimModel Require Import Corr.\n", [exprs[i] for i in idx], timeout=900, workdir=C.WORK / "u3")
        return list(zip(idx, r))

    with cf.ThreadPoolExecutor(max_workers=8) as ex:
        for prt in ex.map(one, list(enumerate(shards))):
            for i, r in prt:
                qs, got = model_cases[i]
                want = [got["eg_id"], got["ehe_id"], got["sn_id"] or [], got["fg_id"], got["bg_id"]]
                # hypotheses of the unbounded theorems (CoupleSpec.couple_wf, flags_agree) on this valid table
                hyp, r = r[5], r[:5]
                stats["unbounded_theorem_hypotheses_hold"] = stats.get("unbounded_theorem_hypotheses_hold", 0) + (hyp == [1, 1, 1, 1])
                if hyp != [1, 1, 1, 1]:
                    stats.setdefault("hypotheses_fail_examples", [])
                    if len(stats["hypotheses_fail_examples"]) < 3:
                        stats["hypotheses_fail_examples"].append(dict(persons=qs, couple_wf_einst_ehep_flags_fg_wf=hyp))
                if r != want:
                    stats["differences"] += 1
                    if stats["differences"] <= 3:
                        # is the implementation wrong w.r.t. the reference?  (checked above: bad list); otherwise the model is behind
                        res.add_violation("u3:model-vs-implementation", f"builders differ from the model on {qs}: implementation {want}, model {r}",
                                          dict(kind="u3", persons=qs, implementation=want, model=r), False)
    stats["model_cases"] = len(model_cases)
    if model_cases and stats.get("unbounded_theorem_hypotheses_hold", 0) < len(model_cases):
        res.machinery_errors.append(f"U3: the hypotheses of the unbounded unit theorems fail on {len(model_cases) - stats.get('unbounded_theorem_hypotheses_hold', 0)} "
                                    f"well-formed generated tables: {stats.get('hypotheses_fail_examples')}")
    res.evaluations += stats["orders"]
    res.distinct += stats["structures"]
    res.samples += [dict(unit="U3", persons=qs, ids=got) for qs, got in model_cases[:2]]
    res.extra["u3"] = stats
    seen = set()
    for b in bad:
        key = f"u3:{b['builder']}:{b['kind']}"
        if key in seen:
            continue
        seen.add(key)
        # keep the smallest witness
        cands = [x for x in bad if f"u3:{x['builder']}:{x['kind']}" == key]
        w = min(cands, key=lambda x: len(x["persons"]))
        res.add_violation(key, f"{w['builder']}: {w['kind']}; rows (in this order) {[(x['p_id'], x['hh_id'], x['alter'], x['p_id_einstandspartner'], x['p_id_elternteil_1'], x['p_id_elternteil_2']) for x in w['persons']]} -> ids {w.get('ids')}, expected classes {w.get('expected')}",
                          dict(w, kind="u3-ref", what=w["kind"]), True)


def t5_engine(ctx, res):
    """ids through the real engine on generated populations: nesting and collisions"""
    impl.setup()
    rnd = ctx.rng("t5")
    n = 0
    bad = []
    ids = ["fg_id", "bg_id", "eg_id", "ehe_id", "sn_id", "wthh_id"]
    for date in (["2024-01-01", "2019-01-01"] if ctx.tier == "quick" else ["2024-01-01", "2019-01-01", "2015-01-01", "2022-07-01", "2010-01-01", "2005-06-01"]):
        for _ in range(2 if ctx.tier == "quick" else 8):
            df = popgen.to_frame(popgen.population(rnd, int(date[:4]), 12, id_style=rnd.choice(["sparse", "unsorted"])))
            df = df.sample(frac=1.0, random_state=rnd.randrange(10**6)).reset_index(drop=True)
            try:
                out, _ = engine.simulate(df, date, targets=ids)
            except Exception as ex:  # noqa: BLE001
                res.extra.setdefault("t5_skipped", []).append(f"{date}: {type(ex).__name__}: {str(ex)[:100]}")
                continue
            n += 1
            col = {k: [int(v) for v in out[k]] for k in ids}
            col["hh_id"] = [int(v) for v in df["hh_id"]]
            for fine, coarse in [("bg_id", "fg_id"), ("eg_id", "fg_id"), ("sn_id", "ehe_id"), ("bg_id", "wthh_id"), ("wthh_id", "hh_id"), ("fg_id", "hh_id")]:
                m = {}
                for a, b in zip(col[fine], col[coarse]):
                    if m.setdefault(a, b) != b:
                        bad.append(dict(kind=f"{fine} does not nest in {coarse}", date=date, fine_id=a, coarse_ids=[m[a], b],
                                        rows=df[["p_id", "hh_id", "alter", "p_id_einstandspartner", "p_id_elternteil_1", "p_id_elternteil_2"]].to_dict("records")))
                        break
    # the unit definitions through the real engine at recent AND old dates, with childless children aged 24, 25, 26 living with
    # their parents and self-sufficient young adults: partitions must equal the reference (the definitions do not depend on the date)
    nref = 0
    for date in (["2024-01-01", "2005-06-01"] if ctx.tier == "quick" else ["2024-01-01", "2019-01-01", "2010-01-01", "2006-12-31", "2005-06-01", "2002-01-01"]):
        for _ in range(3 if ctx.tier == "quick" else 10):
            pop = popgen.population(rnd, int(date[:4]), 8, templates=["adult_child", "couple_kids", "single_parent", "patchwork", "three_gen", "married"], id_style="sparse")
            for q in pop:
                by = {z["p_id"]: z for z in pop}
                par_ages = [by[q[k]]["alter"] for k in ("p_id_elternteil_1", "p_id_elternteil_2") if q[k] >= 0]
                if par_ages and min(par_ages) >= 41 and q["alter"] >= 16 and not children_of(pop, q["p_id"]) and q["p_id_einstandspartner"] < 0 and rnd.random() < 0.8:
                    q["alter"] = rnd.choice([24, 25, 26])
                    q["geburtsjahr"] = int(date[:4]) - q["alter"]
                    q["kind"] = False
                    q["eigenbedarf_gedeckt"] = rnd.random() < 0.5
            # a directed family: partners 55 / 53, their co-resident childless children aged 24, 25, 26 (one covering own needs), and a single
            # parent with a 26-year-old
            base_id = max(q["p_id"] for q in pop) + 10
            hhx = max(q["hh_id"] for q in pop) + 10
            fam = popgen.population(rnd, int(date[:4]), 1, templates=["couple_kids"], id_style="dense")
            proto_adult = next(q for q in fam if not q["kind"])
            def mk(i, hh, age, e=-1, p1=-1, p2=-1, eb=False):
                q = dict(proto_adult)
                q.update(p_id=base_id + i, hh_id=hh, alter=age, geburtsjahr=int(date[:4]) - age, kind=False, p_id_einstandspartner=e, p_id_ehepartner=-1,
                         p_id_elternteil_1=p1, p_id_elternteil_2=p2, p_id_kindergeld_empf=-1, p_id_erziehgeld_empf=-1, p_id_betreuungsk_träger=-1,
                         eigenbedarf_gedeckt=eb, gemeinsam_veranlagt=False, alleinerz=False, steuerklasse=1, bruttolohn_m=float(rnd.choice([0, 800, 2500])))
                return q
            pop = pop + [mk(0, hhx, 55, e=base_id + 1), mk(1, hhx, 53, e=base_id), mk(2, hhx, 24, p1=base_id, p2=base_id + 1),
                         mk(3, hhx, 25, p1=base_id, p2=base_id + 1), mk(4, hhx, 26, p1=base_id, p2=base_id + 1, eb=True),
                         mk(5, hhx + 1, 60), mk(6, hhx + 1, 26, p1=base_id + 5), mk(7, hhx + 1, 24, p1=base_id + 5, eb=True)]
            rnd.shuffle(pop)
            ps = [{k: (bool(q[k]) if k in ("eigenbedarf_gedeckt", "gemeinsam_veranlagt") else int(q[k])) for k in FIELDS} for q in pop]
            if not wf(ps, ages=False):        # (the age gap between parents and children plays no role in the unit definitions)
                res.extra["t5_not_wf"] = res.extra.get("t5_not_wf", 0) + 1
                continue
            df = popgen.to_frame(pop)
            try:
                out, _ = engine.simulate(df, date, targets=["fg_id", "bg_id", "eg_id", "ehe_id", "sn_id"])
            except Exception as ex:  # noqa: BLE001
                res.extra.setdefault("t5_skipped", []).append(f"{date}: {type(ex).__name__}: {str(ex)[:100]}")
                continue
            nref += 1
            ref = reference(ps)
            pids = [x["p_id"] for x in ps]
            for k in ("fg_id", "bg_id", "eg_id", "ehe_id", "sn_id"):
                got = [int(v) for v in out[k]]
                if part(got, pids) != part(ref[k], pids):
                    bad.append(dict(kind=f"{k} partition differs from the unit definition (engine, {date})", date=date, fine_id=k, coarse_ids=[],
                                    rows=[{f: x[f] for f in FIELDS} for x in ps], ids=got, expected=[sorted(c) for c in part(ref[k], pids)]))
                    break
    res.evaluations += n + nref
    res.extra["t5_engine_populations"] = n
    res.extra["t5_engine_reference_populations"] = nref
    seen = set()
    for b in bad:
        if b["kind"] in seen:
            continue
        seen.add(b["kind"])
        res.add_violation(f"t5:{b['kind']}", f"{b['kind']} on {b['date']}: id {b['fine_id']} spans {b['coarse_ids']}", dict(b, kind="t5", what=b["kind"]), True)


def run(ctx, res):
    out = coqrun.prove("C12", PRELUDE, obligations(ctx.tier), shards=3, timeout=1500)
    res.obligations += out
    u3(ctx, res)
    t5_engine(ctx, res)
    for o in out:
        if not o["ok"] and not any(v["found_input"] for v in res.violations):
            res.add_violation(f"obligation:{o['name']}", f"obligation {o['name']} no longer checks: {o['err'][-300:]}",
                              dict(kind="obligation", obligation=o["name"], what=o["what"], err=o["err"]), False)
    res.rule = ("U3: every well-formed pointer structure over {2 households, ages 10/20/30/60, any partner / parent pointers} with up to "
                "3 persons (thorough: 4) plus married / self-sufficient / sparsely relabelled variants, in EVERY row order, and random "
                "larger populations from the household templates in random orders: the real builders' partitions vs an independent "
                "reference (connected components of the unit definitions of hh_concepts.md); a sample is also compared id-for-id with the "
                "Gallina model. T5: nesting bg<fg<hh, eg<fg, sn<ehe, bg<wthh<hh through the real engine. distinct = distinct structures.")
    res.exhaustive = False


def replay(payload):
    impl.setup()
    p = payload["payload"]
    print(json.dumps(p, indent=1, default=str, ensure_ascii=False))
    if p.get("kind") == "u3-ref":
        got = run_builders(p["persons"])
        print("re-run:", got)
    return 1
