"""C04 — a column's value is independent of which other targets are requested."""
from __future__ import annotations

import json

import coqrun
import engine
import impl
import metam
import popgen

PRELUDE = "From GettsimModel Require Import Engine Dag.\nFrom GettsimGen Require Import GenDag GenConfig.\n"


def obligations():
    obls = []
    for i in range(4):
        sel = f"(filter (fun od => Z.leb 735599 (fst od) && Z.eqb (Z.modulo (fst od) 4) {i}) dags)"
        obls.append(dict(
            name=f"c04_closed_{i}",
            stmt=f"forallb (fun od => topo_ok dag_data_cols [] (subgraph (snd od) default_targets) && ancestors_closed_chk (snd od) default_targets "
                 f"&& forallb (fun t => ancestors_closed_chk (snd od) [t]) default_targets) {sel} = true",
            proof="vm_cast_no_check (@eq_refl bool true).",
            what="on every dumped graph from 2015-01-01 on (one per date class; shard %d of 4): the nodes the default targets need are in topological "
                 "order with unique names, and the ancestor set of the default targets and of each single default target is "
                 "argument-closed (premise of C04_target_independent)" % i))
    return obls


def dates_for(tier, rnd):
    ds = metam.dag_dates()
    fixed = [impl.ordinal(x) for x in ("2024-01-01", "2019-01-01")]
    if tier == "thorough":
        fixed += [impl.ordinal(x) for x in ("2015-01-01", "2021-07-01", "2023-07-01", "2017-07-01")]
        fixed += rnd.sample([d for d in ds if d >= impl.ordinal("2015-01-01")], 4)
    return sorted(set(d for d in fixed if d in ds))


def run(ctx, res):
    impl.setup()
    import numpy as np
    import pandas as pd

    res.obligations += coqrun.prove("C04", PRELUDE + "Open Scope Z_scope.\n", obligations(), shards=4, timeout=1500)
    for o in res.obligations:
        if not o["ok"] and o["name"].startswith("c04_"):
            res.add_violation(f"obligation:{o['name']}", f"obligation {o['name']} no longer checks: {o['err'][-300:]}",
                              dict(kind="obligation", obligation=o["name"], err=o["err"]), False)
    rnd = ctx.rng("c04")
    stats = dict(base_runs=0, subset_runs=0, columns_compared=0, extra_column_runs=0, option_runs=0)
    for o in dates_for(ctx.tier, rnd):
        d = metam.dag_for(o)
        year = int(impl.iso(o)[:4])
        nodes = metam.default_nodes(d)
        df = popgen.to_frame(popgen.population(rnd, year, 8 if ctx.tier == "quick" else 16, id_style="sparse"))
        df = df.sample(frac=1.0, random_state=rnd.randrange(10**6))          # keeps a shuffled, non-trivial index
        try:
            base, _ = engine.simulate(df, o, targets=nodes)
        except Exception as ex:  # noqa: BLE001
            res.extra.setdefault("skipped", []).append(f"{impl.iso(o)}: {type(ex).__name__}: {str(ex)[:100]}")
            continue
        stats["base_runs"] += 1
        keys = list(df["p_id"])
        if sorted(base.columns) != sorted(nodes) or len(base) != len(df):
            res.add_violation("shape:all-nodes", f"result shape differs from request on {impl.iso(o)}: {len(base.columns)} columns for {len(nodes)} targets, "
                              f"{len(base)} rows for {len(df)} input rows, index preserved: {list(base.index) == list(df.index)}",
                              dict(kind="shape", date=impl.iso(o), targets=len(nodes)), True)
        # (b) random target subsets
        # directed: every computed id column alone and together with one column of its level (an aggregation over it); every
        # node alone in the thorough tier
        idn = [n for n in nodes if n.endswith("_id")]
        directed = [[n] for n in idn]
        for n in idn:
            lev = [m for m in nodes if m.endswith("_" + n[:-3]) and m != n]
            if lev:
                directed.append([n, rnd.choice(lev)])
        if ctx.tier == "thorough":
            directed += [[n] for n in nodes if n not in idn]
        else:
            directed += [[n] for n in rnd.sample(nodes, min(len(nodes), 25))]
        for S in directed + [rnd.sample(nodes, rnd.randint(1, 6)) for _ in range(12 if ctx.tier == "quick" else 60)]:
            try:
                out, _ = engine.simulate(df, o, targets=S)
            except Exception as ex:  # noqa: BLE001
                res.add_violation(f"subset-raises:{type(ex).__name__}", f"targets {S} on {impl.iso(o)} raise {type(ex).__name__}: {str(ex)[:160]} although the run with all "
                                  f"nodes as targets succeeds", dict(kind="subset-raises", date=impl.iso(o), targets=S, error=str(ex)[:400]), True)
                continue
            stats["subset_runs"] += 1
            if sorted(out.columns) != sorted(S) or len(out) != len(df):
                res.add_violation("shape:subset", f"targets {S} on {impl.iso(o)} returned columns {list(out.columns)}, {len(out)} rows",
                                  dict(kind="shape", date=impl.iso(o), targets=S, columns=list(out.columns)), True)
                continue
            for t in S:
                stats["columns_compared"] += 1
                if not metam.col_equal(out[t].to_numpy(), base[t].to_numpy()):
                    w = metam.first_diff(out[t].to_numpy(), base[t].to_numpy(), keys)
                    res.add_violation(f"value:{t}", f"{t} on {impl.iso(o)} differs between targets={S} and targets=<all {len(nodes)} nodes>: {w}",
                                      dict(kind="value", date=impl.iso(o), target=t, targets_a=S, targets_b="all nodes of the default graph",
                                           witness=w, population_seed=f"{ctx.pid}:c04", rows=df.to_dict("records")[:40]), True)
        # (b2) targets that depend on parameters only (no data column among their ancestors): one row per input row, constant
        ponly = [n for n in nodes if not d["nodes"][n]["args"] and d["nodes"][n]["kind"]["k"] == "rule"]
        for S in ([ponly[:1], ponly[:3]] if ponly else []):
            try:
                out, _ = engine.simulate(df, o, targets=S)
                stats["subset_runs"] += 1
                stats["parameter_only_target_sets"] = stats.get("parameter_only_target_sets", 0) + 1
                if sorted(out.columns) != sorted(S) or len(out) != len(df) or any(not metam.col_equal(out[t].to_numpy(), base[t].to_numpy()) for t in S):
                    res.add_violation("shape:parameter-only-targets", f"targets {S} (parameters only) on {impl.iso(o)}: {len(out)} rows for {len(df)} input rows / values differ",
                                      dict(kind="shape", date=impl.iso(o), targets=S), True)
            except Exception as ex:  # noqa: BLE001
                res.add_violation(f"subset-raises:{type(ex).__name__}", f"targets {S} (parameters only) on {impl.iso(o)} raise {type(ex).__name__}: {str(ex)[:160]}",
                                  dict(kind="subset-raises", date=impl.iso(o), targets=S, error=str(ex)[:400]), True)
        # (c) extra, unused columns — including names that look like time-unit / group / pointer columns
        tg = [t for t in d["targets"] if t in nodes]
        ref = base[tg]
        extra = df.copy()
        extra["zzz_unused"] = 1.0
        extra["foo_m"] = np.arange(len(df), dtype=float)
        extra["bar_y_hh"] = 2.0
        extra["baz_bg"] = True
        extra["qux_id"] = np.arange(len(df))
        out, _ = engine.simulate(extra, o, targets=tg)
        stats["extra_column_runs"] += 1
        for t in tg:
            stats["columns_compared"] += 1
            if not metam.col_equal(out[t].to_numpy(), ref[t].to_numpy()):
                res.add_violation(f"extra-columns:{t}", f"{t} on {impl.iso(o)} changes when unused columns are added: {metam.first_diff(out[t].to_numpy(), ref[t].to_numpy(), keys)}",
                                  dict(kind="extra", date=impl.iso(o), target=t), True)
        # (c2) unused columns named as another time unit of an internally computed rule (x_y next to the rule x_m)
        import re
        sib = {}
        cands = [n for n in nodes if d["nodes"][n]["kind"]["k"] == "rule" and re.match(r"^(.*)_(y|m|w|d)((_(hh|bg|fg|eg|ehe|sn|wthh))?)$", n)]
        for n in rnd.sample(cands, min(len(cands), 8 if ctx.tier == "quick" else 40)):
            m = re.match(r"^(.*)_(y|m|w|d)((_(hh|bg|fg|eg|ehe|sn|wthh))?)$", n)
            u = rnd.choice([x for x in "ymwd" if x != m.group(2)])
            name = f"{m.group(1)}_{u}{m.group(3)}"
            # only when NO other unit variant of the rule is needed by the targets: a supplied x_w would legitimately become the source
            # of a needed derived x_m (the loader derives missing units from whatever unit is supplied) and then it is not unused
            others_needed = any(f"{m.group(1)}_{x}{m.group(3)}" in nodes for x in "ymwd" if x != m.group(2))
            if (not others_needed and name not in nodes and name not in df.columns
                    and d["nodes"].get(name, {}).get("kind", {}).get("k") in (None, "timeconv")):
                sib[name] = n
        if sib:
            extra = df.copy()
            for name in sib:
                extra[name] = 7.0
            out, _ = engine.simulate(extra, o, targets=tg)
            stats["extra_column_runs"] += 1
            stats["sibling_unit_columns"] = stats.get("sibling_unit_columns", 0) + len(sib)
            for t in tg:
                stats["columns_compared"] += 1
                if not metam.col_equal(out[t].to_numpy(), ref[t].to_numpy()):
                    res.add_violation(f"extra-columns:{t}", f"{t} on {impl.iso(o)} changes when the unused columns {sorted(sib)[:6]} (other time units of internally "
                                      f"computed rules) are added: {metam.first_diff(out[t].to_numpy(), ref[t].to_numpy(), keys)}",
                                      dict(kind="extra", date=impl.iso(o), target=t, columns=sorted(sib), rows=df.to_dict("records")), True)
        # (d) debug, (e) minimal-specification option
        for kw in (dict(debug=True), dict(minimal="warn")):
            out, _ = engine.simulate(df, o, targets=tg, **kw)
            stats["option_runs"] += 1
            for t in tg:
                stats["columns_compared"] += 1
                if t not in out.columns or not metam.col_equal(out[t].to_numpy(), ref[t].to_numpy()):
                    res.add_violation(f"option:{list(kw)[0]}:{t}", f"{t} on {impl.iso(o)} differs with {kw}", dict(kind="option", date=impl.iso(o), target=t, option=kw), True)
            if "debug" in kw:
                missing = [c for c in df.columns if c not in out.columns]
                if missing or len(out) != len(df):
                    res.add_violation("shape:debug", f"debug=True on {impl.iso(o)}: data columns missing from the result: {missing[:5]}",
                                      dict(kind="shape", date=impl.iso(o), missing=missing), True)
            elif sorted(out.columns) != sorted(tg):
                res.add_violation("shape:targets", f"result columns {list(out.columns)[:5]}.. differ from targets", dict(kind="shape", date=impl.iso(o)), True)
        if len(res.samples) < 4:
            res.samples.append(dict(unit="target subsets", date=impl.iso(o), rows=len(df), nodes=len(nodes), example_subset=rnd.sample(nodes, 3)))
    # U7: the concrete Coq engine (Table.run_table) vs the implementation, every computed column
    import u7_engine

    u7_dates = [impl.ordinal(x) for x in (["2024-01-01", "2019-01-01"] if ctx.tier == "quick" else
                                           ["2024-01-01", "2019-01-01", "2015-01-01", "2021-07-01", "2023-07-01", "2017-07-01", "2022-10-01", "2026-01-01"])]
    u7_engine.run_u7(ctx, res, u7_dates, 2 if ctx.tier == "quick" else 4)
    res.evaluations += stats["base_runs"] + stats["subset_runs"] + stats["extra_column_runs"] + stats["option_runs"]
    res.distinct += stats["subset_runs"] + stats["extra_column_runs"] + stats["option_runs"]
    res.extra["engine"] = stats
    res.rule = ("per date: one run with ALL nodes of the default targets' dependency graph as targets (shuffled rows, sparse ids, non-trivial "
                "index), then random target subsets of size 1-6 (each requested column must be bit-identical to the all-nodes run, the "
                "result must have exactly the requested columns, one row per input row, same index), a run with five additional unused "
                "columns whose names look like time-unit / group / id columns, debug=True, check_minimal_specification='warn'. "
                "U7: Table.run_table — Engine.run instantiated with the regenerated rule ASTs, the model environment, the real loader's graph, "
                "numpy.vectorize with declared dtypes, rounding, aggregation, id builders, unit conversion — evaluated inside Coq on the same small "
                "populations and compared with the implementation on EVERY computed column of the default graph (dtype, values 1e-9, ids exactly); "
                "Every computed id column is requested alone and together with one column of its level (thorough: every node alone). only array-level / untranslatable rules are supplied as data. distinct = distinct (date, target set / option) runs + U7 columns.")


def replay(payload):
    print(json.dumps(payload["payload"], indent=1, default=str, ensure_ascii=False)[:6000])
    return 1
