"""C18 — statutory schedules are well formed and evaluated exactly."""
from __future__ import annotations

import datetime
import json
import math
from fractions import Fraction

import common as C
import coqrun
import impl
import modelio as M

PRELUDE = """From GettsimModel Require Import PiecewiseProofs ChkC18.
From GettsimGen Require Import GenYaml GenConfig.
Definition PA := params_at yaml_groups internal_params_groups.
"""

NAMED = [("eink_st", "eink_st_tarif", "tarif_chk", "income-tax tariff: zero below allowance, continuous, "
          "non-decreasing, convex, marginal rate <= top rate"),
         ("soli_st", "soli_st", "soli_chk", "solidarity surcharge: continuous, non-decreasing, "
          "<= nominal rate * tax + 0.01")]


def obligations():
    obls = [dict(
        name="c18_wf_all_dates",
        stmt="forallb (c18_wf_at PA) date_classes = true",
        proof="vm_cast_no_check (@eq_refl bool true).",
        what="every piecewise schedule of every parameter group, at every date class of the regenerated "
             "YAML, converts to strictly increasing pieces covering the real line (=> evaluated exactly, "
             "C18_all_schedules_exact)",
        diag="c18_wf_diag PA date_classes")]
    for g, k, chk, what in NAMED:
        obls.append(dict(
            name=f"c18_{chk}_all_dates",
            stmt=f'forallb (c18_named_at PA "{g}" "{k}" {chk}) date_classes = true',
            proof="vm_cast_no_check (@eq_refl bool true).",
            what=f"{what} — at every date class",
            diag=f'c18_named_diag PA "{g}" "{k}" {chk} date_classes'))
    return obls


# ---------------------------------------------------------------------------
# implementation side


def schedules_at(o):
    params, _ = impl.env(o)
    out = {}
    for g, pg in params.items():
        for k, v in pg.items():
            if isinstance(v, dict) and "thresholds" in v:
                out[(g, k)] = v
    return out


def _sched_worker(o):
    try:
        return o, schedules_at(o)
    except Exception:  # noqa: BLE001
        return o, None


def sched_key(v):
    import numpy as np

    return json.dumps([np.asarray(v["thresholds"]).tolist(), np.asarray(v["rates"]).tolist(),
                       np.asarray(v["intercepts_at_lower_thresholds"]).tolist()])


def points_for(v, rnd, n_interior):
    import numpy as np

    thr = [float(t) for t in np.asarray(v["thresholds"]).tolist()]
    fin = [t for t in thr if math.isfinite(t)]
    pts = []
    for t in fin:
        pts += [t, float(np.nextafter(t, -np.inf)), float(np.nextafter(t, np.inf)), t - 0.01, t + 0.01]
    lo = (fin[0] if fin else 0.0)
    hi = (fin[-1] if fin else 0.0)
    span = max(hi - lo, 100.0)
    pts += [lo - span, lo - 1.0, hi + 1.0, hi + span, hi + 1e6, 0.0, 1.0, -1.0]
    for a, b in zip(fin, fin[1:]):
        for _ in range(n_interior):
            pts.append(round(rnd.uniform(a, b), 2))
    for _ in range(n_interior):
        pts.append(round(rnd.uniform(lo - span, hi + span), 3))
    return pts


def impl_eval(v, x):
    import numpy as np

    from _gettsim.piecewise_functions import piecewise_polynomial

    try:
        return float(piecewise_polynomial(
            np.float64(x), thresholds=v["thresholds"], rates=v["rates"],
            intercepts_at_lower_thresholds=v["intercepts_at_lower_thresholds"]))
    except Exception as ex:  # noqa: BLE001
        return ("err", type(ex).__name__)


def spec_eval_yaml(group, key, o, x: Fraction):
    """independent oracle: the mathematical value of the schedule read from the RAW yaml entry in
    force on day o (only for schedules whose entry gives all intercepts or is piecewise with the
    first intercept; continuous extension computed exactly) — used to decide whether a model /
    implementation difference is a violation"""
    raw = impl.raw_yaml(group)[key]
    dates = sorted(d for d in raw if isinstance(d, datetime.date) and d.toordinal() <= o)
    if not dates:
        return None
    ent = raw[dates[-1]]
    if "deviation_from" in ent:
        return None
    prog = bool(raw.get("progressionsfaktor"))
    keys = sorted(k for k in ent if isinstance(k, int))
    if keys != list(range(len(keys))):
        return None

    def num(s):
        if isinstance(s, str):
            return math.inf if s == "inf" else -math.inf if s == "-inf" else None
        if isinstance(s, Fraction):
            return s
        return Fraction(repr(float(s))) if isinstance(s, float) else Fraction(s)

    lower, upper = [], []
    for i in keys:
        lo = ent[i].get("lower_threshold", None)
        up = ent[i].get("upper_threshold", None)
        if lo is None and i > 0:
            lo = ent[i - 1].get("upper_threshold")
        if up is None and i + 1 in ent:
            up = ent[i + 1].get("lower_threshold")
        lower.append(num(lo))
        upper.append(num(up))
    ft = raw.get("type", "")
    if prog:
        # add_progressionsfaktor: quadratic rate (rate of the next interval - rate) / (2 * width) where it is not given
        ent = {i: dict(ent[i]) for i in keys}
        for i in keys:
            if "rate_quadratic" not in ent[i]:
                if i + 1 not in ent or lower[i] is None or upper[i] is None:
                    return None
                if lower[i] == -math.inf or upper[i] == math.inf:
                    ent[i]["rate_quadratic"] = Fraction(0)          # x / inf = 0.0
                else:
                    ent[i]["rate_quadratic"] = (num(ent[i + 1]["rate_linear"]) - num(ent[i]["rate_linear"])) / (2 * (upper[i] - lower[i]))
    names = {"piecewise_linear": [["rate", "rate_linear"]],
             "piecewise_quadratic": [["rate_linear"], ["rate_quadratic"]],
             "piecewise_cubic": [["rate_linear"], ["rate_quadratic"], ["rate_cubic"]]}.get(ft)
    if names is None:
        return None
    rates = []
    for alts in names:
        row = []
        for i in keys:
            r = None
            for a in alts:
                if a in ent[i]:
                    r = num(ent[i][a])
                    break
            if r is None:
                return None
            row.append(r)
        rates.append(row)
    icpt = [None] * len(keys)
    icpt[0] = num(ent[0].get("intercept_at_lower_threshold"))
    if icpt[0] is None:
        return None
    given = [ent[i].get("intercept_at_lower_threshold") for i in keys]
    if all(g is not None for g in given):
        icpt = [num(g) for g in given]
    else:
        for i in keys[1:]:
            if lower[i - 1] == -math.inf:
                icpt[i] = icpt[i - 1]
            else:
                u = lower[i] - lower[i - 1]
                icpt[i] = icpt[i - 1] + sum(rates[p][i - 1] * u ** (p + 1) for p in range(len(rates)))
    for i in keys:
        lo, up = lower[i], upper[i]
        if (lo == -math.inf or lo <= x) and (up == math.inf or x < up):
            if i == 0:
                return icpt[0]
            u = x - lo
            return icpt[i] + sum(rates[p][i] * u ** (p + 1) for p in range(len(rates)))
    return None


def correspondence(ctx, res):
    impl.setup()
    rules = ctx.load_rules()
    classes = rules["config"]["date_classes"]
    rnd = ctx.rng("u6")
    n_int = 2 if ctx.tier == "quick" else 8
    seen = {}
    import multiprocessing as mp

    with mp.Pool(14) as pool:
        for o, sch in pool.imap(_sched_worker, classes, chunksize=4):
            for gk, v in (sch or {}).items():
                key = (gk, sched_key(v))
                if key not in seen:
                    seen[key] = (o, v)
    cases = []
    for ((g, k), _), (o, v) in seen.items():
        for x in points_for(v, rnd, n_int):
            cases.append(dict(date=o, group=g, key=k, x=x, y=impl_eval(v, x)))
    # model side: eval_sched_at on the model's own parse of the regenerated YAML
    by_date = {}
    for c in cases:
        by_date.setdefault(c["date"], []).append(c)
    exprs = []
    order = []
    for o, cs in by_date.items():
        items = "; ".join(
            f'("{c["group"]}", "{c["key"]}", {C.cxq(c["x"])})' for c in cs)
        exprs.append(
            f"json_val (VList (match PA {C.cz(o)} with Ok p => map (fun c => match c with (g, k, x) => "
            f"match pget g p with Some (VDict gd) => match sget k gd with Some pv => "
            f"match eval_sched_at pv x with Ok v => v | Err e => VStr (show_err e) end "
            f"| None => VStr \"absent\" end | _ => VStr \"absent\" end end) [{items}] | Err e => [VStr (show_err e)] end))")
        order.append(o)
    chunks = [list(range(i, len(exprs), 8)) for i in range(8)]
    import concurrent.futures as cf

    model = {}

    def one(ix):
        if not ix[1]:
            return []
        r, _ = M.eval_json(f"U6_{ix[0]}", PRELUDE, [exprs[i] for i in ix[1]], timeout=900, workdir=C.WORK / "u6")
        return list(zip(ix[1], r))

    with cf.ThreadPoolExecutor(max_workers=8) as ex:
        for part in ex.map(one, list(enumerate(chunks))):
            for i, r in part:
                model[order[i]] = r
    n = 0
    diffs = []
    for o, cs in by_date.items():
        mr = model.get(o)
        if mr is None or len(mr) != len(cs):
            res.machinery_errors.append(f"U6: model returned {None if mr is None else len(mr)} results for {len(cs)} cases at {impl.iso(o)}")
            continue
        for c, m in zip(cs, mr):
            n += 1
            y = c["y"]
            ok = False
            if isinstance(y, tuple):
                ok = isinstance(m, str)          # both sides fail
            elif isinstance(m, tuple) and m[0] == "f":
                ok = M.close(y, m[1])
            if not ok:
                diffs.append(dict(date=impl.iso(o), group=c["group"], key=c["key"], x=c["x"], impl=y, model=M.show(m)))
    res.evaluations += n
    res.distinct += len({(c["group"], c["key"], c["x"]) for c in cases})
    res.rule = ("U6: every distinct schedule version (group, parameter, arrays) found over all date classes, evaluated by "
                "the real piecewise_polynomial at every finite threshold, its two float neighbours (nextafter), "
                "+-0.01, interior and exterior points; compared (1e-9 relative) with the model's exact rational "
                "evaluation of the model's own parse of the regenerated YAML; a difference is decided by an independent exact reading of the raw YAML entry (incl. the progression factor of the income-tax tariff): the implementation is wrong iff it differs from that value. A case is non-trivial when x is finite; "
                "distinct = distinct (group, parameter, x).")
    res.samples += [dict(unit="U6", **{k: (impl.iso(v) if k == "date" else v) for k, v in c.items()}) for c in cases[:4]]
    res.extra["u6"] = dict(schedule_versions=len(seen), cases=n, differences=len(diffs))
    return diffs


def shape_search(g, k, chk, o):
    """search the REAL function for a point violating the shape the checker stands for"""
    import numpy as np

    v = schedules_at(o).get((g, k))
    if v is None:
        return None
    thr = [float(t) for t in np.asarray(v["thresholds"]).tolist() if math.isfinite(float(t))]
    lo, hi = (thr[0], thr[-1]) if thr else (0.0, 1.0)
    span = max(hi - lo, 1000.0)
    xs = sorted(set([lo - 10, lo, hi, hi + span] + [t + e for t in thr for e in (-0.01, 0.0, 0.01)]
                    + list(np.linspace(min(lo, 0.0) - 10.0, hi + span, 4001))))
    ys = [impl_eval(v, x) for x in xs]
    if any(isinstance(y, tuple) for y in ys):
        i = next(i for i, y in enumerate(ys) if isinstance(y, tuple))
        return dict(kind="raises", x=xs[i], error=ys[i][1])
    for x, y in zip(xs, ys):
        if not math.isfinite(float(y)):
            return dict(kind="the schedule does not evaluate to a finite number (NaN / inf: malformed thresholds, rates or intercepts)", x=x, y=repr(float(y)),
                        thresholds=[float(t) for t in np.asarray(v["thresholds"]).tolist()],
                        intercepts=[repr(float(t)) for t in np.asarray(v["intercepts_at_lower_thresholds"]).tolist()])
    if chk == "wf":
        return None
    top = float(np.asarray(v["rates"])[0][-1])
    for i in range(len(xs) - 1):
        dx = xs[i + 1] - xs[i]
        dy = ys[i + 1] - ys[i]
        if dy < -1e-9:
            return dict(kind="decreasing (or downward jump)", x1=xs[i], y1=ys[i], x2=xs[i + 1], y2=ys[i + 1])
        if chk == "tarif_chk" and dy > top * dx + 1e-6:
            return dict(kind="marginal rate above top rate (or upward jump)", x1=xs[i], y1=ys[i], x2=xs[i + 1], y2=ys[i + 1], top_rate=top)
        if chk == "soli_chk" and dx <= 0.011 and dy > 1.0 * dx + 1e-6:
            return dict(kind="upward jump", x1=xs[i], y1=ys[i], x2=xs[i + 1], y2=ys[i + 1])
    if chk == "tarif_chk":
        if thr:
            for x, y in zip(xs, ys):
                if x <= thr[0] and abs(y) > 1e-12:
                    return dict(kind="non-zero at or below the basic allowance", x=x, y=y, allowance=thr[0])
        for i in range(1, len(xs) - 1):
            a = (ys[i] - ys[i - 1]) * (xs[i + 1] - xs[i])
            b = (ys[i + 1] - ys[i]) * (xs[i] - xs[i - 1])
            if a > b + 1e-6 * max(1.0, abs(a)):
                return dict(kind="not convex", x=[xs[i - 1], xs[i], xs[i + 1]], y=[ys[i - 1], ys[i], ys[i + 1]])
    if chk == "soli_chk":
        for x, y in zip(xs, ys):
            if x >= 0 and y > top * x + 0.01 + 1e-9:
                return dict(kind="exceeds nominal rate * tax + 0.01", x=x, y=y, rate=top)
    return None


def run(ctx, res):
    obls = obligations()
    out = coqrun.prove("C18", PRELUDE, obls, shards=3, timeout=900)
    res.obligations += out
    present = coqrun.eval_strings("C18_present", PRELUDE + "From GettsimModel Require Import Corr.\n", [
        f'show_z (Z.of_nat (c18_named_present PA "{g}" "{k}" date_classes))' for g, k, _c, _w in NAMED
    ] + ["show_z (Z.of_nat (length date_classes))",
         "show_z (Z.of_nat (fold_right Nat.add 0%nat (map (fun d => match PA d with Ok p => count_scheds p | Err _ => 0%nat end) date_classes)))"])
    if present:
        res.extra["non_vacuity"] = dict(
            date_classes=int(present[2]), schedule_instances_checked=int(present[3]),
            dates_with_income_tax_tariff=int(present[0]), dates_with_soli_schedule=int(present[1]))
    impl.setup()
    for o in out:
        if o["ok"]:
            continue
        # directed search on the implementation
        found = False
        for item in (o.get("diag") or "").split(";"):
            parts = item.split(":")
            if len(parts) < 3:
                continue
            d = int(parts[0])
            g = parts[1]
            k = parts[2].strip("'")
            chk = "tarif_chk" if "tarif" in o["name"] else "soli_chk" if "soli" in o["name"] else "wf"
            w = None
            try:
                w = shape_search(g, k, chk, d)
            except Exception as ex:  # noqa: BLE001
                w = None
            if w is not None:
                res.add_violation(f"{chk}:{g}.{k}@{impl.iso(d)}", f"{g}.{k} on {impl.iso(d)}: {w['kind']}",
                                  dict(kind="shape", date=impl.iso(d), group=g, key=k, chk=chk, witness=w, obligation=o["name"]), True)
                found = True
                break
        if not found:
            res.add_violation(f"obligation:{o['name']}", f"obligation {o['name']} no longer checks ({o.get('diag') or o['err'][-300:]})",
                              dict(kind="obligation", obligation=o["name"], stmt=o.get("what"), diag=o.get("diag"), err=o.get("err")), False)
    diffs = correspondence(ctx, res)
    for df in diffs[:10]:
        # is the implementation wrong w.r.t. the mathematical value read off the raw YAML?
        o = impl.ordinal(df["date"])
        x = Fraction(repr(float(df["x"])))
        want = None
        try:
            want = spec_eval_yaml(df["group"], df["key"], o, x)
        except Exception:  # noqa: BLE001
            want = None
        y = df["impl"]
        bad_impl = want is not None and not isinstance(want, float) and (isinstance(y, tuple) or not M.close(y, want))
        key = f"u6:{df['group']}.{df['key']}@{df['date']}:x={df['x']}"
        if bad_impl:
            res.add_violation(key, f"piecewise_polynomial({df['x']}) on {df['group']}.{df['key']} at {df['date']} = {y}, "
                              f"mathematical value {float(want)}", dict(kind="u6", **df, want=str(want)), True)
        else:
            res.add_violation(key, f"correspondence U6 differs at {df}", dict(kind="u6", **df, want=None if want is None else str(want)), False)


def replay(payload):
    impl.setup()
    p = payload["payload"]
    print(json.dumps(p, indent=1, default=str))
    if p.get("kind") == "shape":
        w = shape_search(p["group"], p["key"], p["chk"], impl.ordinal(p["date"]))
        print("re-run on the implementation:", w)
        return 1 if w else 0
    if p.get("kind") == "u6":
        v = schedules_at(impl.ordinal(p["date"]))[(p["group"], p["key"])]
        print("implementation:", impl_eval(v, p["x"]), "mathematical value:", p.get("want"))
        return 1
    return 1
