"""C15 — group-level columns have one value per group."""
from __future__ import annotations

import json

import common as C
import coqrun
import engine
import impl
import metam
import popgen

PRELUDE = "From GettsimModel Require Import Dag TimeConv Levels Corr TableConst.\nFrom GettsimGen Require Import GenRules GenDag GenConfig.\n"
GROUPS = ["hh", "wthh", "fg", "bg", "eg", "ehe", "sn"]


def known_pairs():
    out = []
    for f in C.load_known_findings():
        if f.get("property") == "C15" and f.get("key", "").startswith("levels:"):
            n, a = f["key"][len("levels:"):].split("<-")
            out.append((n, a))
    return out


def coq_pairs(ps):
    return "[" + "; ".join(f'("{n}", "{a}")' for n, a in ps) + "]"


def obligations():
    known = coq_pairs(known_pairs())
    obls = []
    for i in range(4):
        sel = f"(filter (fun od => Z.leb 735599 (fst od) && Z.eqb (Z.modulo (fst od) 4) {i}) dags)"
        obls.append(dict(
            name=f"c15_levels_{i}",
            stmt=f"forallb (fun od => levels_ok_except {known} dag_data_cols (subgraph (snd od) default_targets)) {sel} = true",
            proof="vm_cast_no_check (@eq_refl bool true).",
            what="on every dumped graph from 2015-01-01 on (shard %d of 4): every rule / conversion node of the default targets' graph whose name "
                 "carries a group suffix is proved constant on that group by the dataflow of Levels.v (all arguments constant on the group, "
                 "aggregates over a coarser-or-equal group, documented *_hh inputs), except downstream of the listed known (node, argument) pairs" % i,
            diag=f'String.concat ";" (flat_map (fun od => map (fun p => show_z (fst od) ++ ":" ++ fst p ++ "<-" ++ snd p) '
                 f'(filter (fun p => negb (pair_mem p {known})) (root_offenders (level_offenders dag_data_cols (subgraph (snd od) default_targets))))) {sel})'))
    for i in range(4):
        sel = f"(filter (fun od => Z.leb 735599 (fst od) && Z.eqb (Z.modulo (fst od) 4) {i}) dags)"
        obls.append(dict(
            name=f"c15_verified_dataflow_{i}",
            stmt=f"forallb (fun od => let S := subgraph (snd od) default_targets in v_levels_ok_except {known} all_fundefs dag_data_cols S && "
                 f"forallb (fun g => fresh_names_b (known0_of g dag_data_cols) [] (non_grouping S)) groups) {sel} = true",
            proof="vm_cast_no_check (@eq_refl bool true).",
            what="on every dumped graph from 2015-01-01 on (shard %d of 4): the VERIFIED dataflow (TableConst.const_nodes, sound for the concrete engine by "
                 "const_nodes_sound: rules with declared dtype and rounding / unit conversions with all arguments constant on the group, group reductions "
                 "whose id column is constant on the group; inputs of the level and id columns of coarser levels assumed constant) proves every node "
                 "whose name carries a group suffix constant on that group, except downstream of the listed known (node, argument) pairs; and the "
                 "freshness premise of the theorem holds for every level" % i,
            diag=f'String.concat ";" (flat_map (fun od => map (fun p => show_z (fst od) ++ ":" ++ fst p ++ "<-" ++ snd p) '
                 f'(filter (fun p => negb (pair_mem p {known})) (root_offenders (v_offenders all_fundefs dag_data_cols (subgraph (snd od) default_targets))))) {sel})'))
    return obls


def level_of(name):
    if name.endswith("_id") and name[:-3] in GROUPS:
        return name[:-3]
    for g in GROUPS:
        if name.endswith("_" + g):
            return g
    return None


def within_group_variation(out, ids, col):
    groups = {}
    for i, g in enumerate(ids):
        groups.setdefault(g, []).append(i)
    for g, rows in groups.items():
        vals = {repr(metam._py(out[col].iloc[i])) for i in rows}
        if len(vals) > 1:
            return dict(group_id=metam._py(g), rows=rows, values=[metam._py(out[col].iloc[i]) for i in rows])
    return None


def directed_search(o, node, arg, rnd, tries):
    """make the members of a group differ in `arg` and look for two values of `node` within one group"""
    d = metam.dag_for(o)
    year = int(impl.iso(o)[:4])
    g = level_of(node)
    for t in range(tries):
        pop = popgen.population(rnd, year, 8, templates=["couple_kids", "married", "unmarried", "patchwork", "single_parent", "self_sufficient_child", "pensioners"],
                                id_style="dense")
        df = popgen.to_frame(pop)
        supplied = {}
        if arg in df.columns:
            # individual-level input: alternate the value within households
            col = df[arg]
            if col.dtype == bool:
                df[arg] = [bool(i % 2) for i in range(len(df))]
            elif arg == "mietstufe":
                df[arg] = [1 + (i % 6) for i in range(len(df))]
            else:
                df[arg] = [col.iloc[i] + (i % 3) for i in range(len(df))]
        elif arg.endswith("_bg") and g == "eg":
            # eg is not nested in bg: a partner under 25 covering his own needs forms his own bg
            npart = int((df["p_id_einstandspartner"] >= 0).sum())
            if npart == 0:
                continue
            df.loc[df["p_id_einstandspartner"] >= 0, "alter"] = [23 if i % 2 == 0 else 40 for i in range(npart)]
            df["geburtsjahr"] = year - df["alter"]
            df.loc[(df["alter"] < 25) & (df["p_id_einstandspartner"] >= 0), "eigenbedarf_gedeckt"] = True
            df.loc[df["alter"] >= 25, "rentner"] = True
            df.loc[df["alter"] >= 25, "alter"] = 67
            df["geburtsjahr"] = year - df["alter"]
        else:
            # a computed individual-level column: supply it as data with values alternating within households
            try:
                base, _ = engine.simulate(df, o, targets=[arg])
                v = base[arg].to_numpy().copy()
                if v.dtype == bool:
                    v = [bool(i % 2) for i in range(len(v))]
                else:
                    v = [v[i] + (i % 3) for i in range(len(v))]
                df[arg] = v
            except Exception:  # noqa: BLE001
                continue
        try:
            tg = [node] + ([f"{g}_id"] if g != "hh" else [])
            out, _ = engine.simulate(df, o, targets=tg)
        except Exception:  # noqa: BLE001
            continue
        ids = df["hh_id"] if g == "hh" else out[f"{g}_id"]
        w = within_group_variation(out, list(ids), node)
        if w:
            rows = w["rows"]
            w["argument_values"] = [metam._py(df[arg].iloc[i]) for i in rows] if arg in df.columns else None
            w["p_ids"] = [int(df["p_id"].iloc[i]) for i in rows]
            return w
    return None


VALS = {"float": [0.0, 1.0, 13.0, 100.0, 449.0, 563.0, 1000.0, 5000.0], "int": [0, 1, 2, 12, 13, 14], "bool": [True, False]}


def supplied_search(o, node, arg, rnd, tries):
    """fallback: the node's computed arguments are SUPPLIED as data columns (any computable column may be supplied, C05):
    group-level arguments constant per group, the offending argument alternating within groups"""
    import numpy as np

    d = metam.dag_for(o)
    nd = d["nodes"][node]
    year = int(impl.iso(o)[:4])
    g = level_of(node)
    ann = nd.get("annotations", {})
    for _t in range(tries):
        df = popgen.to_frame(popgen.population(rnd, year, 6, templates=["couple_kids", "married", "patchwork", "single_parent"], id_style="dense"))
        try:
            idt = [f"{x}_id" for x in GROUPS if x != "hh"]
            ids, _ = engine.simulate(df, o, targets=idt)
        except Exception:  # noqa: BLE001
            continue
        gid = {x: (list(df["hh_id"]) if x == "hh" else list(ids[f"{x}_id"])) for x in GROUPS}
        data = df.copy()
        for a in nd["args"]:
            ty = ann.get(a, "float")
            ty = ty if ty in VALS else "float"
            if a == arg:
                vals = [VALS[ty][i % len(VALS[ty])] for i in range(len(df))]
            elif a in df.columns:
                continue
            else:
                la = level_of(a)
                if la:
                    pick = {k: rnd.choice(VALS[ty]) for k in set(gid[la])}
                    vals = [pick[k] for k in gid[la]]
                else:
                    vals = [rnd.choice(VALS[ty]) for _ in range(len(df))]
            data[a] = np.array(vals, dtype={"float": "float64", "int": "int64", "bool": "bool"}[ty])
        try:
            out, _ = engine.simulate(data, o, targets=[node])
        except Exception:  # noqa: BLE001
            continue
        w = within_group_variation(out, gid[g], node)
        if w:
            rows = w["rows"]
            w["p_ids"] = [int(df["p_id"].iloc[i]) for i in rows]
            w["supplied_arguments"] = {a: [metam._py(data[a].iloc[i]) for i in rows] for a in nd["args"] if a in data.columns}
            w["note"] = "computed arguments of the node were supplied as data columns (group-level ones constant per group)"
            return w
    return None


def run(ctx, res):
    impl.setup()
    out = coqrun.prove("C15", PRELUDE + "Open Scope Z_scope.\n", obligations(), shards=4, timeout=1500)
    res.obligations += out
    rnd = ctx.rng("c15")
    ds = metam.dag_dates()
    known = known_pairs()
    # 1. new structural offenders named by the diagnostic
    new_offenders = {}
    for ob in out:
        if not ob["ok"]:
            for item in (ob.get("diag") or "").split(";"):
                if ":" in item and "<-" in item:
                    dte, pair = item.split(":", 1)
                    n, a = pair.split("<-")
                    new_offenders.setdefault((n, a), int(dte))
            if not ob.get("diag"):
                res.add_violation(f"obligation:{ob['name']}", f"obligation {ob['name']} no longer checks: {ob['err'][-300:]}",
                                  dict(kind="obligation", obligation=ob["name"], err=ob["err"]), False)
    o_default = impl.ordinal("2024-01-01")
    stats = dict(known_pairs=len(known), new_structural_offenders=len(new_offenders), witnesses_found=0, populations=0, group_columns_checked=0)
    for (n, a), dte in list(new_offenders.items()) + [((n, a), o_default) for n, a in known]:
        o = dte if dte in ds else o_default
        d = metam.dag_for(o)
        if n not in d["nodes"]:
            cands = [x for x in ds if n in metam.dag_for(x)["nodes"]]
            if not cands:
                continue
            o = cands[-1]
        try:
            w = directed_search(o, n, a, rnd, 3 if ctx.tier == "quick" else 10)
        except Exception:  # noqa: BLE001
            w = None
        if not w:
            w = supplied_search(o, n, a, rnd, 25)
        key = f"levels:{n}<-{a}"
        if w:
            stats["witnesses_found"] += 1
            res.add_violation(key, f"{n} takes two values within one {level_of(n)} group on {impl.iso(o)} because its argument {a} is not constant on the group: "
                              f"p_ids {w['p_ids']} values {w['values']} ({a} = {w.get('argument_values') or w.get('supplied_arguments', {}).get(a)})",
                              dict(kind="levels", date=impl.iso(o), node=n, argument=a, witness=w), True)
        else:
            res.add_violation(key, f"{n} is not provably constant on its group: argument {a} is not constant on {level_of(n)} (no population exhibiting two values found)",
                              dict(kind="levels", date=impl.iso(o), node=n, argument=a), False)
    # 2. the property itself on generated populations
    dates = [impl.ordinal(x) for x in (["2024-01-01", "2019-01-01"] if ctx.tier == "quick" else
                                        ["2024-01-01", "2019-01-01", "2015-01-01", "2021-07-01", "2023-07-01", "2017-07-01"])]
    for o in [x for x in dates if x in ds]:
        d = metam.dag_for(o)
        year = int(impl.iso(o)[:4])
        nodes = metam.default_nodes(d)
        gcols = [n for n in nodes if level_of(n) and not n.endswith("_id")]
        for _ in range(2 if ctx.tier == "quick" else 8):
            df = popgen.to_frame(popgen.population(rnd, year, 12, id_style="sparse"))
            try:
                outp, _ = engine.simulate(df, o, targets=gcols + [f"{g}_id" for g in GROUPS if g != "hh"])
            except Exception as ex:  # noqa: BLE001
                res.extra.setdefault("skipped", []).append(f"{impl.iso(o)}: {type(ex).__name__}: {str(ex)[:100]}")
                continue
            stats["populations"] += 1
            for c in gcols:
                g = level_of(c)
                ids = list(df["hh_id"]) if g == "hh" else list(outp[f"{g}_id"])
                stats["group_columns_checked"] += 1
                w = within_group_variation(outp, ids, c)
                if w:
                    w["p_ids"] = [int(df["p_id"].iloc[i]) for i in w["rows"]]
                    res.add_violation(f"varies:{c}", f"{c} takes several values within one {g} group on {impl.iso(o)}: p_ids {w['p_ids']} values {w['values']}",
                                      dict(kind="varies", date=impl.iso(o), column=c, witness=w), True)
        if len(res.samples) < 3:
            res.samples.append(dict(unit="group columns", date=impl.iso(o), group_level_columns=len(gcols), example=gcols[:5]))
    res.evaluations += stats["populations"] + len(known) + len(new_offenders)
    res.distinct += stats["group_columns_checked"]
    res.extra["engine"] = stats
    res.rule = ("(i) directed search per structural offender (node, argument) reported by the dataflow — known or new —: populations whose group members "
                "differ in that argument, looking for two values of the node within one group; (ii) generated populations at several dates: every "
                "group-suffixed column of the default targets' graph must have one value per group (ids as computed by the engine; tables carry permuted index labels, results are read by position). "
                "distinct = (population, group-level column) pairs checked.")


def replay(payload):
    print(json.dumps(payload["payload"], indent=1, default=str, ensure_ascii=False)[:6000])
    return 1
