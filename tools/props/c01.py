"""C01 — results do not depend on the order of rows (or on index labels)."""
from __future__ import annotations

import json

import coqrun
import engine
import impl
import metam
import popgen

PRELUDE = "From GettsimModel Require Import Engine Dag TablePerm.\nFrom GettsimGen Require Import GenRules GenDag GenConfig.\n"


def obligations():
    return [dict(
        name="c01_graph_ready_for_permutation_theorem",
        stmt="forallb (fun od => let S := filter (fun n => match d_kind n with KGrouping => false | _ => negb (String.eqb (d_name n) \"geburtsdatum\") end) (subgraph (snd od) default_targets) in "
             "forallb (perm_ready_b all_fundefs) S && forallb (fun n => negb (String.eqb (d_name n) \"p_id\")) S) "
             "(filter (fun od => Z.leb 735599 (fst od)) dags) = true",
        proof="vm_cast_no_check (@eq_refl bool true).",
        what="premises of C01_engine_commutes_with_row_permutations (TablePerm.run_perm_b) on every dumped graph >= 2015: every node of the default "
             "targets' graph other than the six id builders is a rule with a declared result dtype, a unit conversion, a group reduction, a join, "
             "or a sum by person pointer reading p_id as its key column; no node is named p_id")]


def id_consumers_ok(d, nodes):
    """R-check on the regenerated graph: derived id columns flow only into key positions
    (group aggregates, id builders, or scalar rules that only compare them for equality is NOT checked here:
    rules reading an id column are listed)"""
    out = []
    idn = {n for n in nodes if d["nodes"][n]["kind"]["k"] == "grouping"}
    for n in nodes:
        nd = d["nodes"][n]
        used = [a for a in nd["args"] if a in idn]
        if used and nd["kind"]["k"] in ("rule", "join"):
            out.append((n, used))
    return out


def run(ctx, res):
    impl.setup()
    import numpy as np
    import pandas as pd

    import coqrun
    res.obligations += coqrun.prove("C01", PRELUDE + "Open Scope Z_scope.\n", obligations(), shards=1, timeout=1500)
    for ob in res.obligations:
        if not ob["ok"] and ob["name"].startswith("c01_"):
            res.add_violation(f"obligation:{ob['name']}", f"obligation {ob['name']} no longer checks: {ob['err'][-300:]}",
                              dict(kind="obligation", obligation=ob["name"], err=ob["err"]), False)
    rnd = ctx.rng("c01")
    ds = metam.dag_dates()
    dates = [impl.ordinal(x) for x in (["2024-01-01", "2019-01-01", "2015-01-01"] if ctx.tier == "quick" else
                                        ["2024-01-01", "2019-01-01", "2015-01-01", "2021-07-01", "2023-07-01", "2017-07-01", "2010-01-01", "2005-06-01"])]
    stats = dict(populations=0, permutations=0, columns_compared=0, id_columns=0, index_variants=0, rules_reading_ids={}, skipped={})
    for o in [x for x in dates if x in ds]:
        d = metam.dag_for(o)
        year = int(impl.iso(o)[:4])
        nodes = metam.default_nodes(d)
        stats["rules_reading_ids"][impl.iso(o)] = [f"{n}<-{','.join(u)}" for n, u in id_consumers_ok(d, nodes)][:20]
        for rep in range(2 if ctx.tier == "quick" else 6):
            df = popgen.to_frame(popgen.population(rnd, year, 10 if ctx.tier == "quick" else 18, id_style=rnd.choice(["sparse", "unsorted", "dense"])))
            try:
                base, _ = engine.simulate(df, o, targets=nodes)
            except Exception as ex:  # noqa: BLE001
                stats["skipped"][f"{impl.iso(o)}#{rep}"] = f"{type(ex).__name__}: {str(ex)[:100]}"
                continue
            stats["populations"] += 1
            base = base.copy()
            base["__p"] = df["p_id"].to_numpy()
            base = base.set_index("__p")
            orders = []
            n = len(df)
            orders.append(list(reversed(range(n))))
            # zero-income persons / children first, and last
            key = [(df["bruttolohn_m"].iloc[i] != 0.0, not df["kind"].iloc[i]) for i in range(n)]
            orders.append(sorted(range(n), key=lambda i: key[i]))
            orders.append(sorted(range(n), key=lambda i: key[i], reverse=True))
            for _ in range(2 if ctx.tier == "quick" else 6):
                orders.append(rnd.sample(range(n), n))
            for od in orders:
                d2 = df.iloc[od].reset_index(drop=True)
                variant = rnd.choice(["range", "shuffled_ints", "strings", "dates", "duplicates"])
                if variant == "shuffled_ints":
                    d2.index = rnd.sample(range(1000, 1000 + 5 * n), n)
                elif variant == "strings":
                    d2.index = [f"row{rnd.randrange(10**6)}" for _ in range(n)]
                elif variant == "dates":
                    d2.index = pd.date_range("2000-01-01", periods=n)[rnd.sample(range(n), n)]
                elif variant == "duplicates":
                    d2.index = [7] * n
                stats["index_variants"] += 1 if variant != "range" else 0
                try:
                    out, _ = engine.simulate(d2, o, targets=nodes)
                except Exception as ex:  # noqa: BLE001
                    res.add_violation(f"raises:{type(ex).__name__}", f"permuted / relabelled table fails on {impl.iso(o)} (index variant {variant}): {type(ex).__name__}: {str(ex)[:200]}",
                                      dict(kind="raises", date=impl.iso(o), index_variant=variant, order=od, error=str(ex)[:500]), True)
                    continue
                stats["permutations"] += 1
                pid2 = d2["p_id"].to_numpy()
                for t in nodes:
                    a = out[t].to_numpy()
                    b = base.loc[pid2, t].to_numpy()
                    stats["columns_compared"] += 1
                    if metam.is_id(t):
                        stats["id_columns"] += 1
                        ok = metam.same_partition(a, b)
                    else:
                        ok = (a.dtype == b.dtype) and metam.col_close(a, b, tol=1e-9)
                    if not ok:
                        w = metam.first_diff(a, b, list(pid2))
                        res.add_violation(f"order:{t}", f"{t} on {impl.iso(o)} depends on the row order: {w} (dtypes {a.dtype} / {b.dtype}; index variant {variant})",
                                          dict(kind="order", date=impl.iso(o), column=t, witness=w, order=od, index_variant=variant,
                                               dtypes=[str(a.dtype), str(b.dtype)], p_ids_original_order=[int(x) for x in df["p_id"]],
                                               args={k: [metam._py(v) for v in df[k]] for k in d["nodes"][t]["args"] if k in df.columns}), True)
            if len(res.samples) < 3:
                res.samples.append(dict(unit="permutation", date=impl.iso(o), rows=n, orders=len(orders), first_order=orders[1][:10]))
    res.evaluations += stats["permutations"]
    res.distinct += stats["permutations"]
    res.extra["engine"] = stats
    res.rule = ("per date and generated population (sparse / unsorted / dense ids): the table is re-ordered (reverse, zero-income persons and "
                "children first, last, random) and given another index (shuffled ints, strings, dates, all-equal labels); every node of the "
                "default targets' graph must be the same per person (dtype equal, floats within 1e-9 to allow re-association of float sums; "
                "derived id columns: same partition). distinct = distinct (population, order) runs.")


def replay(payload):
    print(json.dumps(payload["payload"], indent=1, default=str, ensure_ascii=False)[:6000])
    return 1
