"""C14 — simulation is pure, deterministic and independent of the process history."""
from __future__ import annotations

import concurrent.futures as cf
import json
import subprocess

import common as C
import impl

RISKY_REWRITES = [
    "_gettsim.social_insurance_contributions.ges_pflegev:ges_pflegev_beitr_satz_arbeitnehmer_mit_kinder_abschlag",
    "_gettsim.transfers.rente:_ges_rente_altersgrenze_abschlagsfrei_ohne_besond_langj",
    "_gettsim.transfers.kindergeld:kindergeld_ohne_staffelung_m",
    "_gettsim.taxes.eink_st:eink_st_y_sn_kindergeld_oder_kinderfreib",
    "_gettsim.transfers.arbeitsl_geld_2.arbeitsl_geld_2:arbeitsl_geld_2_m_bg",
]
DATES = ["2024-01-01", "2023-07-01", "2019-01-01", "2015-01-01", "2021-07-01"]
TARGET_SETS = [None, ["eink_st_y_sn", "soli_st_y_sn"], ["kindergeld_m", "arbeitsl_geld_2_m_bg", "wohngeld_m_wthh"],
               ["ges_pflegev_beitr_arbeitnehmer_m", "sozialv_beitr_arbeitnehmer_m"], ["ges_rente_m", "grunds_im_alter_m_eg"]]


def run_history(hist, timeout=900):
    p = subprocess.run([C.PY, str(C.VERIF / "tools" / "u10_hist.py")], env=C.ENV, input=json.dumps(hist), capture_output=True, text=True, timeout=timeout)
    for line in p.stdout.splitlines():
        if line.startswith("U10JSON"):
            return json.loads(line[7:])
    raise RuntimeError("U10 worker failed: " + (p.stderr or p.stdout)[-1200:])


def gen_history(rnd, length):
    h = []
    for _ in range(length):
        k = rnd.random()
        d = rnd.choice(DATES)
        if k < 0.12:
            h.append(dict(op="setup", date=d))
        elif k < 0.62:
            h.append(dict(op="simulate", date=d, seed=rnd.randrange(10**6), n_hh=rnd.choice([3, 6]), targets=rnd.choice(TARGET_SETS),
                          rounding=rnd.random() < 0.7, as_dict=rnd.random() < 0.4, int_as_float=rnd.random() < 0.4,
                          replace=rnd.choice([None, None, "kindergeld_m", "elterngeld_m", "ges_rentenv_beitr_arbeitnehmer_m"]),
                          replace_delta=rnd.choice([1, 2, 5])))
        elif k < 0.68:
            h.append(dict(op="inplace", date=d, group=rnd.choice(["sozialv_beitr", "wohngeld", "arbeitsl_geld_2", "kinderzuschl", "ges_rente", "eink_st"])))
        elif k < 0.80:
            h.append(dict(op="reform", date=d, seed=rnd.randrange(10**6), n_hh=3, targets=rnd.choice(TARGET_SETS), rounding=True,
                          group=rnd.choice(["eink_st", "kindergeld", "sozialv_beitr", "arbeitsl_geld_2", "wohngeld"]), as_dict=False, int_as_float=False))
        else:
            h.append(dict(op="rewrite", function=rnd.choice(RISKY_REWRITES)))
    return h


def run(ctx, res):
    impl.setup()
    rnd = ctx.rng("c14")
    n_hist = 6 if ctx.tier == "quick" else 30
    length = 8 if ctx.tier == "quick" else 14
    hists = [gen_history(rnd, length) for _ in range(n_hist)]
    # a history that exercises the two known risky sequences first
    hists.insert(0, [dict(op="simulate", date="2024-01-01", seed=5, n_hh=6, targets=["ges_pflegev_beitr_arbeitnehmer_m", "ges_rente_m"], rounding=True, as_dict=True, int_as_float=True),
                     dict(op="rewrite", function=RISKY_REWRITES[0]), dict(op="rewrite", function=RISKY_REWRITES[1]),
                     dict(op="setup", date="2024-01-01"),
                     dict(op="simulate", date="2024-01-01", seed=5, n_hh=6, targets=["ges_pflegev_beitr_arbeitnehmer_m", "ges_rente_m"], rounding=True, as_dict=True, int_as_float=True),
                     dict(op="inplace", date="2024-01-01", group="sozialv_beitr"), dict(op="inplace", date="2024-01-01", group="wohngeld"),
                     dict(op="setup", date="2024-01-01"),
                     dict(op="simulate", date="2024-01-01", seed=5, n_hh=6, targets=["ges_pflegev_beitr_arbeitnehmer_m", "wohngeld_m_wthh"], rounding=True, as_dict=False, int_as_float=False),
                     dict(op="setup", date="2023-07-01"),
                     dict(op="simulate", date="2023-07-01", seed=6, n_hh=4, targets=["kindergeld_m", "elterngeld_m"], rounding=True, as_dict=False, int_as_float=False, replace="kindergeld_m"),
                     dict(op="simulate", date="2023-07-01", seed=6, n_hh=4, targets=["kindergeld_m", "elterngeld_m"], rounding=True, as_dict=False, int_as_float=False, replace="elterngeld_m"),
                     dict(op="simulate", date="2023-07-01", seed=6, n_hh=4, targets=["kindergeld_m", "elterngeld_m"], rounding=True, as_dict=False, int_as_float=False)])
    # a parameter sweep with factory-made user functions: same name and module, different behaviour, one after the other in one process
    hists.append([dict(op="setup", date="2023-07-01")] +
                 [dict(op="simulate", date="2023-07-01", seed=8, n_hh=4, targets=["kindergeld_m", "kindergeld_m_fg"], rounding=True, as_dict=False, int_as_float=False,
                       replace="kindergeld_m", replace_delta=dl) for dl in (1, 3, 7, 3)] +
                 [dict(op="simulate", date="2023-07-01", seed=8, n_hh=4, targets=["kindergeld_m", "kindergeld_m_fg"], rounding=True, as_dict=False, int_as_float=False)])
    stats = dict(histories=len(hists), calls=0, compared_with_fresh_process=0, rewrites=0, errors={})
    with cf.ThreadPoolExecutor(max_workers=6) as ex:
        joint = list(ex.map(run_history, hists))
        singles = {}
        todo = []
        for hi, h in enumerate(hists):
            for oi, op in enumerate(h):
                if op["op"] in ("simulate", "reform", "setup", "inplace"):
                    key = json.dumps(op, sort_keys=True)
                    if key not in singles:
                        singles[key] = None
                        todo.append((key, [op]))
        for (key, _), r in zip(todo, ex.map(lambda t: run_history(t[1]), todo)):
            singles[key] = r[0]
    for hi, (h, rs) in enumerate(zip(hists, joint)):
        for oi, (op, r) in enumerate(zip(h, rs)):
            stats["calls"] += 1
            if "error" in r:
                stats["errors"][r["error"][:60]] = stats["errors"].get(r["error"][:60], 0) + 1
                if r["error"].startswith(("TypeError", "AttributeError", "NameError", "ImportError")):
                    res.machinery_errors.append(f"U10 worker: {op} -> {r['error']}")
            if op["op"] == "rewrite":
                stats["rewrites"] += 1
                if r.get("module_attr_still_original") is False or r.get("module_bindings_changed"):
                    res.add_violation("rewrite:module-rebound", f"producing the array form of {op['function']} rebinds names in its module: {r.get('module_bindings_changed')}",
                                      dict(kind="rebound", history=h[:oi + 1], observation=r), True)
                continue
            fresh = singles[json.dumps(op, sort_keys=True)]
            stats["compared_with_fresh_process"] += 1
            if r.get("digest") != fresh.get("digest") or ("error" in r) != ("error" in fresh):
                res.add_violation(f"history:{op['op']}", f"call #{oi} of history {hi} ({op}) gives another result than the same call in a fresh process "
                                  f"(digest {r.get('digest', r.get('error'))} vs {fresh.get('digest', fresh.get('error'))}); earlier calls: {[x['op'] + ':' + x.get('function', x.get('date', '')) for x in h[:oi]]}",
                                  dict(kind="history", history=h[:oi + 1], in_history=r, fresh=fresh), True)
            if r.get("data_modified"):
                res.add_violation("caller:data-modified", f"compute_taxes_and_transfers modified the caller's data ({'dict of Series' if op.get('as_dict') else 'DataFrame'}): {r['data_modified']}",
                                  dict(kind="data-modified", call=op, observation=r["data_modified"]), True)
            if r.get("params_modified"):
                res.add_violation("caller:params-modified", "compute_taxes_and_transfers modified the caller's parameter dictionary", dict(kind="params-modified", call=op), True)
            if r.get("functions_modified"):
                res.add_violation("caller:functions-modified", "compute_taxes_and_transfers modified the caller's function collection", dict(kind="functions-modified", call=op), True)
            if r.get("module_bindings_changed"):
                res.add_violation("call:module-rebound", f"{op['op']} rebinds module-level names: {r['module_bindings_changed'][:3]}", dict(kind="rebound", call=op, observation=r), True)
    # directed: every rounding specification with an additive part (to_add_after_rounding) — simulate twice with the SAME
    # parameter object: the caller's parameters are untouched and the two results agree
    import copy
    import engine
    import modelio as M
    import popgen
    stats["additive_rounding_specs"] = 0
    for iso in ["2002-01-01", "2003-06-01", "2024-01-01"]:
        o = impl.ordinal(iso)
        try:
            p0, f0 = impl.env(o)
        except Exception:  # noqa: BLE001
            continue
        params = copy.deepcopy(p0)
        for g, grp in params.items():
            for name, spec in (grp.get("rounding", {}) or {}).items() if isinstance(grp, dict) else []:
                if isinstance(spec, dict) and spec.get("to_add_after_rounding"):
                    df = popgen.to_frame(popgen.population(rnd, int(iso[:4]), 4, id_style="dense"))
                    before = repr(M.canon_py(params[g]))
                    try:
                        o1, _ = engine.simulate(df, o, targets=[name], params=params, functions=f0)
                        o2, _ = engine.simulate(df, o, targets=[name], params=params, functions=f0)
                    except Exception as ex:  # noqa: BLE001
                        stats["errors"][f"{iso}:{name}:{type(ex).__name__}"] = 1
                        continue
                    stats["additive_rounding_specs"] += 1
                    if repr(M.canon_py(params[g])) != before:
                        res.add_violation("caller:params-modified", f"simulating {name} on {iso} (rounding with an additive part) modified the caller's parameters: "
                                          f"params['{g}']['rounding']['{name}'] is now {params[g]['rounding'].get(name)}", dict(kind="params-modified", date=iso, rule=name), True)
                    elif list(o1[name]) != list(o2[name]):
                        res.add_violation("history:repeat", f"two identical calls for {name} on {iso} give different results", dict(kind="history", date=iso, rule=name), True)
    # determinism: the same history twice
    again = run_history(hists[1])
    if [x.get("digest") for x in again] != [x.get("digest") for x in joint[1]]:
        res.add_violation("determinism", "the same history gives different results in two processes", dict(kind="determinism", history=hists[1]), True)
    res.evaluations += stats["calls"]
    res.distinct += stats["compared_with_fresh_process"]
    res.samples += [dict(unit="history", ops=[x["op"] + ":" + str(x.get("function", x.get("date"))) for x in hists[1]])]
    res.extra["u10"] = stats
    res.rule = ("random histories of API calls (set up environment, simulate with DataFrame or dict-of-Series data incl. columns needing dtype "
                "conversion, varying targets / rounding, reforms on deep copies, make_vectorizable on five rules incl. two whose array form "
                "differs) run in ONE interpreter; every set-up / simulate / reform call is re-run alone in a FRESH interpreter and the result digests "
                "(sha1 over names, dtypes, bytes) must be identical; before/after snapshots of the caller's data (object identity, dtype, bytes), "
                "params and functions; identity map of every callable of every _gettsim module before/after each call. "
                "distinct = calls compared with a fresh process.")


def replay(payload):
    print(json.dumps(payload["payload"], indent=1, default=str, ensure_ascii=False)[:5000])
    p = payload["payload"]
    if p.get("history"):
        print(json.dumps(run_history(p["history"]), indent=1)[:3000])
    return 1
