"""C13 — time-unit variants of a column differ exactly by the fixed factors."""
from __future__ import annotations

import json
import re
from fractions import Fraction

import coqrun
import engine
import impl
import metam
import popgen

PRELUDE = "From GettsimModel Require Import Dag TimeConv Corr.\nFrom GettsimGen Require Import GenDag GenConfig.\n"
PER_YEAR = {"y": Fraction(1), "m": Fraction(12), "w": Fraction(36525, 700), "d": Fraction(36525, 100)}
PAT = re.compile(r"(?P<base>.*_)(?P<unit>[ymwd])(?P<agg>_hh|_wthh|_fg|_bg|_eg|_ehe|_sn)?")


def obligations():
    obls = []
    for i in range(4):
        sel = f"(filter (fun od => Z.eqb (Z.modulo (fst od) 4) {i}) dags)"
        obls.append(dict(
            name=f"c13_conversions_{i}",
            stmt=f"forallb (fun od => tc_all_ok (snd od)) {sel} = true",
            proof="vm_cast_no_check (@eq_refl bool true).",
            what="every time-conversion node of every dumped graph reads the same-named column of another unit with the documented "
                 "factor (shard %d of 4)" % i,
            diag=f'String.concat ";" (flat_map (fun od => map (fun s => show_z (fst od) ++ ":" ++ s) (tc_offenders (snd od))) {sel})'))
    return obls


def run(ctx, res):
    impl.setup()
    out = coqrun.prove("C13", PRELUDE + "Open Scope Z_scope.\n", obligations(), shards=8, timeout=1500)
    res.obligations += out
    rnd = ctx.rng("c13")
    ds = metam.dag_dates()
    dates = [impl.ordinal(x) for x in (["2024-01-01", "2019-01-01"] if ctx.tier == "quick" else
                                        ["2024-01-01", "2019-01-01", "2015-01-01", "2021-07-01", "2023-07-01", "2010-01-01", "2005-06-01"])]
    stats = dict(flows=0, unit_columns_compared=0, other_unit_inputs=0, group_commutes=0, skipped={})
    failing = [o for o in out if not o["ok"]]
    for o in [x for x in dates if x in ds]:
        d = metam.dag_for(o)
        year = int(impl.iso(o)[:4])
        nodes = metam.default_nodes(d)
        df = popgen.to_frame(popgen.population(rnd, year, 8 if ctx.tier == "quick" else 14, id_style="sparse"))
        live = set(d["order"])
        flows = [n for n in nodes if PAT.fullmatch(n)] + [c for c in df.columns if PAT.fullmatch(c)]
        pick = flows if ctx.tier == "thorough" else rnd.sample(flows, min(len(flows), 40))
        # (a) all four variants of a flow, requested together
        for n in pick:
            m = PAT.fullmatch(n)
            base, unit, agg = m.group("base"), m.group("unit"), m.group("agg") or ""
            names = {u: f"{base}{u}{agg}" for u in "ymwd"}
            tg = [x for x in names.values() if x not in df.columns]
            if not tg:
                continue
            try:
                outv, _ = engine.simulate(df, o, targets=tg)
            except Exception as ex:  # noqa: BLE001
                if "no corresponding function" in str(ex):
                    res.add_violation(f"unavailable:{n}", f"not every time-unit variant of {n} can be requested on {impl.iso(o)}: {str(ex)[:200]}",
                                      dict(kind="unavailable", date=impl.iso(o), flow=n, requested=tg, error=str(ex)[:400]), True)
                else:
                    stats["skipped"][f"{impl.iso(o)}:{n}"] = f"{type(ex).__name__}: {str(ex)[:80]}"
                continue
            stats["flows"] += 1
            col = {x: (outv[x] if x in outv.columns else df[x]) for x in names.values() if x in outv.columns or x in df.columns}
            ref_u = unit if names[unit] in col else next(u for u in "ymwd" if names[u] in col)
            ref = col[names[ref_u]].to_numpy().astype(float)
            for u, x in names.items():
                if x not in col or u == ref_u:
                    continue
                stats["unit_columns_compared"] += 1
                fac = float(PER_YEAR[ref_u] / PER_YEAR[u])
                if not metam.col_close(col[x].to_numpy().astype(float), ref * fac, tol=1e-9):
                    w = metam.first_diff(col[x].to_numpy().astype(float), ref * fac, list(df["p_id"]))
                    res.add_violation(f"factor:{x}", f"{x} on {impl.iso(o)} is not {names[ref_u]} * {PER_YEAR[ref_u] / PER_YEAR[u]}: {w}",
                                      dict(kind="factor", date=impl.iso(o), column=x, reference=names[ref_u], factor=str(PER_YEAR[ref_u] / PER_YEAR[u]), witness=w), True)
        # (b) supplying an input in another time unit gives the same results
        tg = [t for t in d["targets"] if t in nodes]
        try:
            base_out, _ = engine.simulate(df, o, targets=tg)
            for c, u2 in [("bruttolohn_m", "y"), ("eink_selbst_m", "y"), ("kapitaleink_brutto_m", "w"), ("bruttokaltmiete_m_hh", "y"), ("arbeitsstunden_w", "m"), ("eink_vermietung_m", "d")]:
                m = PAT.fullmatch(c)
                if c not in df.columns or m is None:
                    continue
                other = f"{m.group('base')}{u2}{m.group('agg') or ''}"
                d2 = df.drop(columns=[c]).copy()
                d2[other] = df[c].to_numpy() * float(PER_YEAR[m.group('unit')] / PER_YEAR[u2])
                out2, _ = engine.simulate(d2, o, targets=tg)
                stats["other_unit_inputs"] += 1
                for t in tg:
                    if not metam.col_close(out2[t].to_numpy(), base_out[t].to_numpy(), tol=1e-7):
                        w = metam.first_diff(out2[t].to_numpy(), base_out[t].to_numpy(), list(df["p_id"]))
                        res.add_violation(f"input-unit:{c}->{other}:{t}", f"supplying {other} instead of {c} on {impl.iso(o)} changes {t}: {w}",
                                          dict(kind="input-unit", date=impl.iso(o), given=other, instead_of=c, target=t, witness=w), True)
            # (b2) the same with an INTEGER-typed column in the other unit (whole euros per year, not divisible by 12)
            import numpy as np
            for c, u2 in [("bruttolohn_m", "y"), ("bruttokaltmiete_m_hh", "y"), ("eink_selbst_m", "y")]:
                m = PAT.fullmatch(c)
                if c not in df.columns or m is None:
                    continue
                other = f"{m.group('base')}{u2}{m.group('agg') or ''}"
                whole = np.round(df[c].to_numpy() * 12.0).astype("int64") + (np.arange(len(df)) % 7 + 1)
                d_ref = df.copy()
                d_ref[c] = whole / 12.0
                d_int = df.drop(columns=[c]).copy()
                d_int[other] = whole
                ref_out, _ = engine.simulate(d_ref, o, targets=tg)
                out2, _ = engine.simulate(d_int, o, targets=tg)
                stats["other_unit_inputs"] += 1
                stats["integer_typed_inputs"] = stats.get("integer_typed_inputs", 0) + 1
                for t in tg:
                    if not metam.col_close(out2[t].to_numpy(), ref_out[t].to_numpy(), tol=1e-7):
                        w = metam.first_diff(out2[t].to_numpy(), ref_out[t].to_numpy(), list(df["p_id"]))
                        res.add_violation(f"input-unit-int:{c}->{other}:{t}", f"supplying the int64 column {other} instead of {c} = {other}/12 on {impl.iso(o)} changes {t}: {w}",
                                          dict(kind="input-unit-int", date=impl.iso(o), given=other, instead_of=c, target=t, witness=w), True)
                        break
        except Exception as ex:  # noqa: BLE001
            stats["skipped"][f"{impl.iso(o)}:inputs"] = f"{type(ex).__name__}: {str(ex)[:120]}"
        # (c) conversion commutes with group summation
        for c in ["bruttolohn_m", "eink_selbst_m", "kapitaleink_brutto_m"]:
            try:
                o3, _ = engine.simulate(df, o, targets=[f"{c[:-1]}y_hh", f"{c}_hh"])
                stats["group_commutes"] += 1
                if not metam.col_close(o3[f"{c[:-1]}y_hh"].to_numpy(), o3[f"{c}_hh"].to_numpy() * 12.0, tol=1e-9):
                    res.add_violation(f"group-sum:{c}", f"{c[:-1]}y_hh is not 12 * {c}_hh on {impl.iso(o)}", dict(kind="group-sum", date=impl.iso(o), column=c), True)
            except Exception as ex:  # noqa: BLE001
                stats["skipped"][f"{impl.iso(o)}:{c}_hh"] = f"{type(ex).__name__}: {str(ex)[:80]}"
        # (d) a column that is a RULE in one unit is supplied as data in another unit: the two remaining units (and their
        #     household sums) must be the supplied column times the factor, not the rule's own result
        import numpy as np
        rule_flows = []
        for n in nodes:
            m = PAT.fullmatch(n)
            k = d["nodes"][n]["kind"]
            if m is None or m.group("agg") or not isinstance(k, dict) or k.get("k") != "rule" or d["nodes"][n].get("annotations", {}).get("return") != "float":
                continue
            others = [f"{m.group('base')}{u}" for u in "ymwd" if u != m.group("unit")]
            if any(x in df.columns or (x in d["nodes"] and isinstance(d["nodes"][x]["kind"], dict) and d["nodes"][x]["kind"].get("k") == "rule") for x in others):
                continue
            rule_flows.append(n)
        for n in rnd.sample(rule_flows, min(len(rule_flows), 6 if ctx.tier == "quick" else 30)):
            m = PAT.fullmatch(n)
            base, unit = m.group("base"), m.group("unit")
            u2 = rnd.choice([u for u in "ymwd" if u != unit])
            rest = [u for u in "ymwd" if u not in (unit, u2)]
            given = f"{base}{u2}"
            vals = np.arange(len(df), dtype=float) * 37.5 + 100.25
            d2 = df.copy()
            d2[given] = vals
            # the household sum is only predicted when no unit variant of <base>_hh is a data column or a rule of its own
            # (e.g. bruttokaltmiete_m_hh is an input; its unit variants follow THAT column, not the persons' shares)
            hh_own = any(f"{base}{u}_hh" in df.columns or (f"{base}{u}_hh" in d["nodes"] and isinstance(d["nodes"][f"{base}{u}_hh"]["kind"], dict)
                                                           and d["nodes"][f"{base}{u}_hh"]["kind"].get("k") == "rule") for u in "ymwd")
            tg = [f"{base}{u}" for u in rest] + ([] if hh_own else [f"{base}{rest[0]}_hh"])
            try:
                with_data, _ = engine.simulate(d2, o, targets=tg)
            except Exception as ex:  # noqa: BLE001
                stats["skipped"][f"{impl.iso(o)}:{given} as data"] = f"{type(ex).__name__}: {str(ex)[:80]}"
                continue
            stats["rule_supplied_in_other_unit"] = stats.get("rule_supplied_in_other_unit", 0) + 1
            hh = df["hh_id"].to_numpy()
            for u in rest:
                fac = float(PER_YEAR[u2] / PER_YEAR[u])
                exp = vals * fac
                checks = [(f"{base}{u}", exp)]
                if u == rest[0] and not hh_own:
                    checks.append((f"{base}{u}_hh", np.array([exp[hh == h].sum() for h in hh])))
                for x, e in checks:
                    stats["unit_columns_compared"] += 1
                    if not metam.col_close(with_data[x].to_numpy().astype(float), e, tol=1e-9):
                        w = metam.first_diff(with_data[x].to_numpy().astype(float), e, list(df["p_id"]))
                        res.add_violation(f"data-unit:{given}->{x}", f"{given} is supplied as data (the rule is {n}) on {impl.iso(o)}, but {x} is not derived from it with factor {PER_YEAR[u2] / PER_YEAR[u]}: {w}",
                                          dict(kind="data-unit", date=impl.iso(o), given=given, rule=n, column=x, values=list(vals), witness=w), True)
        if len(res.samples) < 3:
            res.samples.append(dict(unit="unit variants", date=impl.iso(o), flows=pick[:5]))
    for ob in failing:
        if not any(v["found_input"] for v in res.violations):
            res.add_violation(f"obligation:{ob['name'].rsplit('_', 1)[0]}", f"obligation {ob['name']} no longer checks: {(ob.get('diag') or ob['err'])[:300]}",
                              dict(kind="obligation", obligation=ob["name"], diag=ob.get("diag"), err=ob["err"]), False)
    res.evaluations += stats["flows"] + stats["other_unit_inputs"] + stats["group_commutes"] + stats.get("rule_supplied_in_other_unit", 0)
    res.distinct += stats["flows"] + stats["other_unit_inputs"] + stats["group_commutes"] + stats.get("rule_supplied_in_other_unit", 0)
    res.extra["engine"] = stats
    res.rule = ("per date: for sampled flow names (thorough: all) of the default graph and the input table, all existing unit variants are "
                "requested together and must differ exactly by periods-per-year ratios (1e-9); rule columns are supplied as data in another unit and the remaining units (and household sums) must follow the data; six inputs are supplied in another unit instead "
                "and all default targets must be unchanged (1e-7); x_y_hh must be 12 * x_m_hh. distinct = distinct (date, flow) requests.")


def replay(payload):
    print(json.dumps(payload["payload"], indent=1, default=str, ensure_ascii=False)[:6000])
    return 1
