"""Run model expressions inside Coq (vm_compute) and read the results back as JSON;
compare model values with implementation values under the tolerance rule."""
from __future__ import annotations

import datetime
import json
import re
from fractions import Fraction
from pathlib import Path

import common as C

PRELUDE = """From Coq Require Import ZArith QArith Qcanon Bool String List.
From GettsimModel Require Import Num Val Ast Piecewise Eval Corr PolicyEnv.
Import ListNotations.
Open Scope string_scope.
"""

_STR = re.compile(r'=\s*"((?:[^"]|"")*)"\s*:\s*string', re.S)


def eval_json(name: str, prelude: str, exprs: list[str], timeout=900, workdir=None):
    """each expr must have type string and hold JSON; returns (list of parsed objects, secs)
    raises RuntimeError when coqc fails"""
    work = Path(workdir) if workdir else C.WORK / "eval"
    work.mkdir(parents=True, exist_ok=True)
    fn = work / f"{name}.v"
    body = [PRELUDE, prelude]
    for e in exprs:
        body.append(f"Eval vm_compute in ({e}).")
    fn.write_text("\n".join(body) + "\n", encoding="utf-8")
    rc, out, err, secs = C.coqc(fn, timeout=timeout)
    if rc != 0:
        raise RuntimeError(f"coqc failed on {fn}: {err[-3000:]}")
    res = []
    for m in _STR.finditer(out):
        txt = m.group(1).replace('""', '"')
        res.append(from_model_json(json.loads(txt)))
    if len(res) != len(exprs):
        raise RuntimeError(f"expected {len(exprs)} results from {fn}, got {len(res)}: {out[:2000]}")
    return res, secs


class Date:
    __slots__ = ("ordinal",)

    def __init__(self, o):
        self.ordinal = int(o)

    def __eq__(self, other):
        return isinstance(other, Date) and other.ordinal == self.ordinal

    def __hash__(self):
        return hash(("date", self.ordinal))

    def __repr__(self):
        try:
            return f"Date({datetime.date.fromordinal(self.ordinal).isoformat()})"
        except Exception:  # noqa: BLE001
            return f"Date(ord={self.ordinal})"


class ModelErr:
    def __init__(self, kind):
        self.kind = kind

    def __repr__(self):
        return f"ModelErr({self.kind})"

    def __eq__(self, other):
        return isinstance(other, ModelErr) and other.kind == self.kind


def _num(s):
    if s == "inf":
        return float("inf")
    if s == "-inf":
        return float("-inf")
    if s == "nan":
        return float("nan")
    n, d = s.split("/")
    return Fraction(int(n), int(d))


def from_model_json(j):
    if isinstance(j, dict):
        if len(j) == 1:
            (k, v), = j.items()
            if k == "i":
                return int(v)
            if k == "f":
                return ("f", _num(v))
            if k == "d":
                return Date(v)
            if k == "err":
                return ModelErr(v)
        out = {}
        for k, v in j.items():
            tag, rest = k[:2], k[2:]
            if tag == "s:":
                key = rest
            elif tag == "i:":
                key = int(rest)
            elif tag == "d:":
                key = Date(rest)
            else:
                raise ValueError(f"bad key {k!r}")
            out[key] = from_model_json(v)
        return out
    if isinstance(j, list):
        return [from_model_json(x) for x in j]
    return j


def canon_py(v):
    """implementation value -> comparable form (floats stay floats, tagged)"""
    import numpy as np

    if isinstance(v, (bool, np.bool_)):
        return bool(v)
    if isinstance(v, (int, np.integer)):
        return int(v)
    if isinstance(v, (float, np.floating)):
        return ("f", float(v))
    if isinstance(v, str) or v is None:
        return v
    if isinstance(v, np.datetime64):
        return Date(v.astype("datetime64[D]").astype(datetime.date).toordinal())
    if isinstance(v, datetime.date):
        return Date(v.toordinal())
    if isinstance(v, np.ndarray):
        return canon_py(v.tolist())
    if isinstance(v, (list, tuple)):
        return [canon_py(x) for x in v]
    if isinstance(v, dict):
        out = {}
        for k, x in v.items():
            if isinstance(k, datetime.date):
                k = Date(k.toordinal())
            elif isinstance(k, (np.integer,)):
                k = int(k)
            elif isinstance(k, (float, np.floating)) and float(k) == int(k):
                k = int(k)
            out[k] = canon_py(x)
        return out
    return ("?", repr(v))


TOL = Fraction(1, 10**9)


def close(y: float, q) -> bool:
    """float y (implementation) vs model number q (Fraction or ±inf/nan float)"""
    if isinstance(q, float):
        if q != q:
            return y != y
        return y == q
    if y != y or y in (float("inf"), float("-inf")):
        return False
    fy = Fraction(y)
    return abs(fy - q) <= TOL * max(1, abs(q))


def diff(py, model, path="", out=None, limit=20):
    """list of (path, impl, model) where the two differ; dict order ignored"""
    if out is None:
        out = []
    if len(out) >= limit:
        return out
    if isinstance(py, dict) and isinstance(model, dict):
        for k in py:
            if k not in model:
                out.append((f"{path}[{k!r}]", "present", "absent"))
            else:
                diff(py[k], model[k], f"{path}[{k!r}]", out, limit)
        for k in model:
            if k not in py:
                out.append((f"{path}[{k!r}]", "absent", "present"))
        return out
    if isinstance(py, list) and isinstance(model, list):
        if len(py) != len(model):
            out.append((path, f"list of {len(py)}", f"list of {len(model)}"))
            return out
        for i, (a, b) in enumerate(zip(py, model)):
            diff(a, b, f"{path}[{i}]", out, limit)
        return out
    if isinstance(py, tuple) and py and py[0] == "f":
        if isinstance(model, tuple) and model[0] == "f" and close(py[1], model[1]):
            return out
        out.append((path, show(py), show(model)))
        return out
    if type(py) is type(model) and py == model:
        return out
    out.append((path, show(py), show(model)))
    return out


def show(v):
    if isinstance(v, tuple) and v and v[0] == "f":
        x = v[1]
        return f"float:{float(x)!r}" + (f" (={x})" if isinstance(x, Fraction) and x.denominator != 1 else "")
    if isinstance(v, bool):
        return f"bool:{v}"
    if isinstance(v, int):
        return f"int:{v}"
    return repr(v)
