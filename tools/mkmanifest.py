#!/venv/bin/python
"""Writes /verif/MANIFEST.json from the table below (one entry per claimed property)."""
import json
from pathlib import Path

VERIF = Path(__file__).resolve().parent.parent

NOTE = ("Trusted: Coq 8.16.1 kernel (vm_compute, no native_compute), no axioms declared (Print Assumptions recorded "
        "per run), the fail-closed Python->Coq translator, the correspondence harness; floats are exact rationals in "
        "the model (tolerance 1e-9 in the correspondence); numpy/pandas/dags behaviour is modelled, not verified.")

CLAIMS = {
    "C01": dict(
        text="Theorems: the generic engine lemma run_rel (related inputs + relation-preserving node operations => related outputs, or "
             "both runs fail); scalar rules vectorized with their declared dtype commute with EVERY row permutation for EVERY rule "
             "(no type-stability side condition is left after the otypes repair); a group's reduction does not depend on the order of its "
             "members (commutative-associative reductions; float sums in the exact-rational model); partitions of derived ids are order "
             "free (C12, bounded-exhaustive). End to end on the model (TablePerm.run_perm_b): the concrete Coq engine Table.sem commutes "
             "with EVERY permutation of the rows for every rule table / parameters / number of rows — rules with declared dtype and "
             "rounding, unit conversions, all six group reductions, joins, sums by person pointer (unique p_ids); id builders excluded "
             "(ids supplied; their partitions are C12). Its decidable side conditions are an obligation on every regenerated graph. "
             "Tie: the real engine is run on re-ordered and re-indexed tables for every node of the default graph; U7 ties Table.sem "
             "to the engine.",
        technique="Coq proof (TablePerm.run_perm_b end-to-end equivariance of the model engine; Engine.run_rel, Perm.vectorize_declared_perm, "
                  "SbpPerm, fold1_perm) + reflective side conditions on the regenerated graph + metamorphic engine runs",
        design="6/C01"),
    "C02": dict(
        text="Theorems: run_rel; row-wise cells of a population do not depend on appended rows; group entries whose id does not occur "
             "among the other rows are unchanged; injective relabelling of ids preserves group values; wthh/bg ids of different "
             "households/families never collide. Tie: A alone vs A+B / B+A / interleaved and random relabelling on the real engine for "
             "every node of the default graph. End to end on the model (TableSep.run_separable_b): for the concrete Coq engine, the run on "
             "A ++ B succeeds whenever the runs on A and B do and equals their column-wise concatenation, given disjoint reduction keys, "
             "overall unique p_ids and foreign keys that stay inside the own table; decidable graph conditions are an obligation per run; "
             "relabellings incl. the label 0 for pointed-to persons.",
        technique="Coq proof (TableSep.run_separable_b end-to-end on the model engine; Engine.run_rel, Perm separability lemmas, Groupings) + "
                  "reflective side conditions on the regenerated graph + metamorphic engine runs",
        design="6/C02"),
    "C03": dict(
        text="Theorem (model of numpy.vectorize with the declared dtype as otypes, for every rule, table and row): the column dtype is the "
             "declared one and each cell is the rule's value for that row cast to it; the cast is the identity on values of the declared "
             "type and a lossless widening for int/bool results of float rules; dtype inference from the first row is refuted by a "
             "2-row witness. Tie: engine runs compare EVERY cell of every scalar-rule column of the default graph with the raw rule "
             "called on that row's inputs (exact equality) and the dtype with the declared type; scalar calls check that every result "
             "type casts losslessly to the declared type.",
        technique="Coq proof (Column.vectorize_declared) + exhaustive per-cell differential engine runs",
        design="6/C03"),
    "C04": dict(
        text="Theorem (abstract engine, any column type, any node operations, any data): evaluation pruned to ANY argument-closed set of "
             "names agrees with the full evaluation on that set, hence a common target has the same value under two target sets and "
             "unused data columns do not matter. Obligations regenerated every run from the graph the REAL loader builds: topological "
             "order + closedness of the default targets' ancestor sets. Engine runs: random target subsets vs all-nodes run "
             "(bit-identical), extra columns (incl. other time units of internally computed rules), debug, minimal-specification option, "
             "result shape. U7: the concrete Coq engine Table.run_table (every node kind, regenerated rule ASTs, model environment, real "
             "graph) is compared with compute_taxes_and_transfers column by column.",
        technique="Coq proof (Engine.run_closed_subset, Table.table_target_independent) + reflective checks on the regenerated loader graph "
                  "+ whole-engine correspondence U7 + differential engine runs",
        design="6/C04"),
    "C05": dict(
        text="Theorem (abstract engine): removing a node and supplying its computed column as data leaves every column unchanged "
             "(unique names premise discharged reflectively on the regenerated graph). Engine runs: per node, override with the computed "
             "column, compare all default targets, require the warning; loader view: graph with the column supplied = graph minus node.",
        technique="Coq proof (Engine.run_override) + reflective check on the regenerated loader graph + differential engine/loader runs",
        design="6/C05"),
    "C06": dict(
        text="Theorem (abstract engine): replacing the operations of any set F of nodes changes only columns in the tainted set "
             "(F and everything reading a tainted column); Dag.descendants is proved equal to that set. Engine runs: per parameter group "
             "and per rule, perturb / replace and compare every column outside the descendants bit-identically; identical copies change "
             "nothing; parameter groups share no mutable object.",
        technique="Coq proof (Engine.run_taint) + descendants computed on the regenerated loader graph + differential reform runs",
        design="6/C06"),
    "C07": dict(
        text="Theorems: the entry used is the most recent one on or before the date; it is constant between change dates; "
             "validity intervals are inclusive; val_eqb is Leibniz equality. Obligations regenerated every run and discharged by "
             "vm_compute: an EXHAUSTIVE sweep over every calendar day 1980-01-01 .. one year after the last entry showing the whole "
             "model environment (all parameters, deviations, vorjahr/jahresanfang look-ups, schedules, rounding, function selection) "
             "is constant within each date class; at most one implementation per name; civil<->ordinal round trip. The hand-written "
             "loader model is tied to the code by U5 (every leaf of set_up_policy_environment vs the model).",
        technique="Coq proof + exhaustive vm_compute day sweep on regenerated YAML/registry + differential correspondence U5",
        design="6/C07"),
    "C08": dict(
        text="Theorem: a parameter read through constant keys cannot raise when the path exists in the environment (whatever branch "
             "contains it); topological order implies unique names / acyclicity. Obligations regenerated every run for every date class "
             ">= 2015-01-01 from the real loader's graph, the translated rule ASTs and the model environment: leaves are documented "
             "inputs; every constant-key parameter path in every branch of every reachable rule exists; every rounded reachable rule has "
             "a spec — except one recorded known finding (2017 H1). Engine runs compute all default targets on the first day of every "
             "class for branch-forcing populations. Dynamic-key reads are covered only by the engine runs.",
        technique="Coq proof (static_read_cannot_fail) + reflective checks over regenerated graph/ASTs/YAML + engine runs per date class",
        design="6/C08"),
    "C10": dict(
        text="Theorems for every base>0, offset and value: rounded-offset is on the grid; direction inequalities for up/down/nearest; "
             "error below one step; grid points are fixed points. Obligation regenerated every run: for every group and date class the "
             "loaded specification equals the YAML entry in force incl. to_add_after_rounding and is well formed. 'Exactly once' on the "
             "concrete model engine Table.sem (TableRound.v, any rule table / parameters / node): a marked rule's column with rounding on "
             "is its unrounded column rounded cell by cell; every other node kind is computed identically with rounding on or off (derived "
             "columns are not rounded again); a marked rule without specification is an error. The real engine is tied by differential "
             "runs (T1-T3).",
        technique="Coq proof (Rounding.v, TableRound.v) + reflective vm_compute obligation on regenerated YAML + differential engine runs",
        design="6/C10"),
    "C11": dict(
        text="Theorems for all columns and all id assignments (unsorted, sparse): the table entry of a group is the reduction of the "
             "values of exactly its members; every member reads the same value; sum and count in closed form; order independence for "
             "commutative-associative reductions; sum_by_p_id credits each row to exactly the person pointed to and ignores negative "
             "pointers; join looks up the pointed-to row. The model is tied to aggregation_numpy / join_numpy by U2 (values, dtype, "
             "exception class) and the loader precedence rules by engine runs T4.",
        technique="Coq proof (Aggregation.v: model = specification) + differential correspondence U2/T4",
        design="6/C11"),
    "C12": dict(
        text="General theorems for the arithmetic builders (wthh = hh*100+flag, bg within fg, no collisions below 100 rows). UNBOUNDED "
             "theorems for the partner-based builders (CoupleSpec.v: for tables of any size with unique non-negative p_ids and symmetric "
             "partner pointers, two rows share an eg / ehe / sn id exactly when they are the same person or point to each other (sn: and "
             "both are jointly assessed); FgSpec.v: two rows share an fg id exactly when their family heads — the person, or a co-resident "
             "parent of an eligible child — are the same person or partners (loop invariant over the dictionary builder); hence the "
             "partitions are row-order free; decidable hypotheses evaluated on every U3 table). Bounded "
             "exhaustive theorems discharged by vm_compute on every run: for every well-formed pointer structure of up to 3 persons and "
             "every row order, fg/eg/ehe/sn partitions equal the reference partition (connected components of the unit definitions), "
             "with a proved refutation of the unrepaired fg builder. U3 ties the model to groupings.py (ids equal, numbering included) "
             "and checks the real builders against an independent reference exhaustively up to 3 (thorough 4) persons in all orders.",
        technique="Coq proof (unbounded for wthh/bg/eg/ehe/sn/fg; bounded-exhaustive vm_compute against the reference partition) + exhaustive differential correspondence U3",
        design="6/C12"),
    "C13": dict(
        text="Theorems (exact rational arithmetic): the documented factors; round trip = identity; composition; conversion commutes with "
             "sums; every factor is positive, so conversions are injective order isomorphisms preserving sign and zero. Obligation regenerated every run: every conversion node of every dumped graph reads the same-named column of another "
             "unit with exactly the documented factor (name grammar parsed in Gallina, soundness proved). Engine runs: all unit variants "
             "of flows requested together, inputs supplied in another unit, group sums.",
        technique="Coq proof (TimeConv.v, TimeConvOrder.v, ConvSum.v) + reflective check of the regenerated loader graph + differential engine runs",
        design="6/C13"),
    "C15": dict(
        text="Theorem (any column type, rule base, population): along an evaluation the set of columns constant on the classes of an "
             "equivalence is preserved by pointwise nodes whose arguments are all in the set and by aggregates. Obligation regenerated "
             "every run: a dataflow analysis over every dumped graph proves every group-suffixed rule/conversion node constant on its "
             "group except downstream of the five listed known (node, argument) pairs, each of which is exhibited on the real engine "
             "on every run. End to end on the model (TableConst.const_nodes_sound): for the concrete Coq engine Table.sem and any relation E "
             "between rows, the verified dataflow const_nodes marks only columns that are constant on E (rules with declared dtype and rounding, "
             "unit conversions, group reductions keyed by a constant id column; ids of coarser levels assumed constant, their nesting is C12); "
             "run on every regenerated graph it leaves exactly the five known pairs. Engine runs check every group-level column of the default "
             "graph on generated populations.",
        technique="Coq proof (TableConst.const_nodes_sound end-to-end on the model engine; Levels.group_constant) + verified reflective dataflow on the "
                  "regenerated loader graph + directed engine search",
        design="6/C15"),
    "C18": dict(
        text="Theorems (for all schedules and all rational arguments): the model of piecewise_polynomial returns the "
             "mathematical value at every finite point, thresholds included; reflective shape checkers (zero below, "
             "continuous+monotone+marginal<=top rate, convex, <= rate*x+0.01) with soundness proofs. Obligations "
             "regenerated from the YAML on every run: every schedule at every date class is well formed; tariff and "
             "Soli have their shape. Correspondence U6 ties model parse+evaluation to the real code at thresholds +-1ulp.",
        technique="Coq proof (pp_impl_eq_spec, checker soundness) + reflective vm_compute obligations on regenerated YAML + differential correspondence",
        design="6/C18"),
}

CLAIMS["C09"] = dict(
    text="Theorems on the deep embedding: for each expression and statement shape of the documented style (conditional expression, "
         "and/or/not as conditions, if/else with assignments to one target, assignment without else, augmented assignments in both "
         "branches, returns in both branches) the array form (strict where / logical_*) yields the original's value whenever it succeeds; "
         "the two shapes the Transformer accepts but gets wrong are refuted by witnesses. Obligation regenerated every run: every `if` of "
         "every translated rule has a sound or loudly rejected shape and no rule reduces over a list of columns — except the nine listed "
         "rules. Tie: U8 runs the REAL make_vectorizable on every rule and on 14 style / off-style functions and compares every position "
         "(it finds exactly the nine rules). The purity half of the property is decided under C14.",
    technique="Coq proof (Vectorize.v shape lemmas + refutations) + reflective shape check over regenerated rule ASTs + differential U8 on the real rewriter",
    design="6/C09")

CLAIMS["C14"] = dict(
    text="PARTIAL (as DESIGN.md says): theorem over an abstract process state — if no operation writes a persistent location (module "
         "namespaces, registry, the caller's data / params / functions) and results depend only on the operation and persistent locations, "
         "then after ANY finite history every call returns what it returns in a fresh process and the persistent locations are unchanged; "
         "the two write-set violations of the code before repair are refuted as instances. That the real operations have these write "
         "sets is observed, not proved: U10 runs random histories (set-up, simulate with DataFrame / dict data needing conversion, reforms, "
         "make_vectorizable) in one interpreter, re-runs every call in a fresh interpreter (digests must be identical) and snapshots caller "
         "objects and every module binding before/after each call. Aliasing and caches inside numpy/pandas cannot be exhibited by the model.",
    technique="Coq proof (History.history_independent, abstract non-interference) + history exploration against fresh processes (U10)",
    design="6/C14")

CLAIMS["C16"] = dict(
    text="PARTIAL. A verified abstract interpreter of the rule language (Absint.v, theorem rule_aval_sound): whenever the arguments of a "
         "rule are described by their abstract values and the rule (with the helpers it calls, fuel as in the evaluator) returns a value, "
         "that value is described by the abstract result. Domain: exact values (parameters, literals, everything computed from them "
         "alone incl. comprehensions over parameter tables), finite candidate sets (parameter tables indexed by data), intervals with "
         "optional rational bounds for finite numbers (Itv.v: enclosure lemma per operation), lists, unbound names (if/elif chains). "
         "Piecewise schedules: reflective sign checker with soundness through pp_impl_eq_spec. Obligation regenerated every run for every "
         "dumped date >= 2015: the dataflow over the REAL loader's graph with the concrete parameters of the date proves the per-date "
         "node sets of c16_baseline.json finite / non-negative and their upper bounds (2024: 313 of 317 nodes finite, all 18 default "
         "targets finite, 11 non-negative; e.g. arbeitsl_geld_m in [0, 5058.5], health-insurance wage base <= assessment ceiling); "
         "the proved bounds are compared with the caps computed from the implementation's parameters. The composition over the table "
         "uses closure rules with value-level lemmas only (cast, rounding, unit conversion); contributions are proved finite, their "
         "non-negativity rests on Contrib.v (C19). Cap theorems on the closed forms of the final benefit rules (tied to the ASTs under "
         "C17). Corner sweeps of the real engine: every numeric column finite, default targets >= 0, caps respected.",
    technique="Coq proof (Absint.rule_aval_sound abstract interpreter, Itv enclosures, PiecewiseSign.nn_chk_sound, cap theorems) + "
              "reflective dataflow on regenerated rule ASTs / graph per date + corner sweeps of the real engine",
    design="6/C16")

CLAIMS["C17"] = dict(
    text="Theorem over per-person records (priority flags of the person's bg, household pensioner indicators, wthh = hh*100 + flag, `any` "
         "aggregates over the part-household, the three final rules in closed form): ALG II > 0 => Wohngeld = 0 and Kinderzuschlag = 0; "
         "Wohngeld > 0 => ALG II = 0; all-pensioner households get none of the three; bg members share a part-household; Kinderzuschlag > 0 "
         "=> a priority check says the need is covered. Obligations regenerated every run: the regenerated ASTs of the three final rules, "
         "the three flag rules and erwachsene_alle_rentner_hh EQUAL the closed forms for all argument values (symbolic evaluation); "
         "grunds_im_alter_m_eg is 0 unless all adults are pensioners; the *_wthh flags are `any` aggregates over wthh_id in every dumped "
         "graph. Engine sweeps across the break-even points check every person.",
    technique="Coq proof (Priority.v) + symbolic equality of regenerated rule ASTs with closed forms + reflective graph check + engine sweeps",
    design="6/C17")

CLAIMS["C19"] = dict(
    text="ALL WAGES, all four insurances, on the model evaluator of the real rule chains: a verified symbolic evaluator in the wage "
         "(AffEval.sym_seval_sound: the scalar evaluation of the regenerated chain over the real graph, rounding on, equals a*w+b for EVERY "
         "wage of an interval) and shape theorems for functions described by affine pieces (AffShape) give C19_all_wages: per dumped date "
         ">= 2015 (one obligation each) and east / west x 0,1,2,4,6 children x age 20 / 35, the employee contribution is non-negative, "
         "non-decreasing, zero up to the marginal threshold, constant from the ceiling on, continuous at the upper zone boundary, and "
         "employee + employer = total inside the transition zone, for every wage w >= 0. Bounded only in the discrete configurations (other "
         "inputs fixed: employee, publicly insured, not self-employed, no pension). Also: closed-form theorems for ALL parameters satisfying "
         "cond (Contrib.v) with a grid tie to the chains for pension / unemployment. Engine sweeps check the shape on the real code for all "
         "four branches and compare the model chain with the implementation.",
    technique="Coq proof (AffEval.v verified symbolic evaluator + AffShape.v + ChkC19Aff.v; Contrib.v closed forms) + engine wage sweeps",
    design="6/C19")

CLAIMS["C20"] = dict(
    text="Theorems on the model of the input checks and of the coercion: accepted data have unique p_ids, valid non-self pointers, "
         "group-constant group-level inputs and no duplicate column names, and in fault-injection form (ValidationFaults.v) every table carrying a missing / duplicate p_id, a dangling or self pointer in any pointer column, a varying group-level input or a duplicate column at ANY row is rejected whatever stands around it; a successful conversion never "
         "changes a numeric value (for all values), with a proved refutation of unchecked int->float beyond 2^53; the tax-unit builder "
         "rejects a table exactly when two spouses' joint-assessment flags differ, for tables of any size and any row positions "
         "(CoupleSpec.sn_id_accepts_iff). Tie: U9 compares "
         "convert_cell / accept with the real converter / checks; fault injection of every fault class (and pairs) through the public "
         "API at random rows must raise; dtype variants must leave all results unchanged and warn.",
    technique="Coq proof (Validation.v, ValidationFaults.v, CoupleSpec.v) + differential correspondence U9 + fault injection through the public API",
    design="6/C20")

ALL = [f"C{i:02d}" for i in range(1, 21)]
PLANNED = "machinery for this property is not built yet in this commit (planned, DESIGN.md section 11); not claimed"


def main():
    checks = []
    for pid, c in CLAIMS.items():
        checks.append(dict(
            property_id=pid,
            quick_cmd=f"./check {pid} --tier quick",
            thorough_cmd=f"./check {pid} --tier thorough",
            evidence_file=f"/verif/evidence/{pid}.json",
            replay_cmd_template=f"./check {pid} --replay {{path}}",
            engine="gettsim-coq-model",
            level_claimed=dict(category="proof", text=c["text"], design_ref=f"DESIGN.md section {c['design']}"),
            level_note=c.get("note", NOTE),
            technique=c["technique"],
        ))
    m = dict(
        version=1,
        setup_cmd="/venv/bin/python tools/build.py",
        hooks=dict(
            guard="GETTSIM_VERIF",
            enable="export GETTSIM_VERIF=1 (no source hooks are needed: everything observed is reachable through "
                   "public / module-level functions and ast)",
            baseline_off_cmd="cd /repo && env -u GETTSIM_VERIF /venv/bin/python -m pytest -ra -q -p no:cacheprovider "
                             "--timeout=900 --continue-on-collection-errors",
            source_commits=[],
            add_only=True,
        ),
        engines=[dict(name="gettsim-coq-model", path="/verif/coq",
                      serves_properties=sorted(CLAIMS),
                      kind_free_text="Coq 8.16 development: deep embedding of the rule language + hand-written engine/"
                                     "loader models; gen/ regenerated from /repo by tools/translate.py on every run; "
                                     "correspondence harness in tools/")],
        checks=checks,
        notes="See DESIGN.md. `./check <ID>` = sync (translator) + make + props/<ID>.v + regenerated obligations + "
              "correspondence + violation protocol + evidence.",
        not_applicable=[dict(property_id=p, reason=PLANNED) for p in ALL if p not in CLAIMS],
    )
    (VERIF / "MANIFEST.json").write_text(json.dumps(m, indent=1, ensure_ascii=False) + "\n", encoding="utf-8")
    print("claimed:", sorted(CLAIMS))


if __name__ == "__main__":
    main()
