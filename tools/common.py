"""Shared plumbing for the /verif checks: paths, Coq invocation, value rendering,
evidence files, locking."""
from __future__ import annotations

import contextlib
import datetime
import fcntl
import json
import os
import random
import subprocess
import sys
import time
from fractions import Fraction
from pathlib import Path

VERIF = Path(__file__).resolve().parent.parent
REPO = Path(os.environ.get("GETTSIM_REPO", "/repo"))
COQ = VERIF / "coq"
GEN = COQ / "gen"
WORK = VERIF / "work"
EVID = VERIF / "evidence"
REPLAYS = VERIF / "replays"
PY = "/venv/bin/python"
COQFLAGS = ["-Q", str(COQ / "theories"), "GettsimModel", "-Q", str(GEN), "GettsimGen",
            "-Q", str(COQ / "props"), "GettsimProps"]

ENV = dict(os.environ)
ENV["PYTHONPATH"] = str(REPO / "src")
ENV["PYTHONHASHSEED"] = "0"
ENV["GETTSIM_VERIF"] = "1"


def seed() -> int:
    try:
        return int(os.environ.get("VERIF_SEED", "0"))
    except ValueError:
        return 0


def rng(tag: str = "") -> random.Random:
    return random.Random(f"{seed()}:{tag}")


@contextlib.contextmanager
def locked(name: str):
    WORK.mkdir(exist_ok=True)
    f = open(WORK / f"{name}.lock", "w")
    try:
        fcntl.flock(f, fcntl.LOCK_EX)
        yield
    finally:
        fcntl.flock(f, fcntl.LOCK_UN)
        f.close()


def run(cmd, timeout=600, cwd=None, env=None, inp=None):
    t0 = time.time()
    try:
        p = subprocess.run(cmd, cwd=cwd, env=env or ENV, input=inp, capture_output=True,
                           text=True, timeout=timeout)
        return p.returncode, p.stdout, p.stderr, time.time() - t0
    except subprocess.TimeoutExpired as ex:
        return 124, (ex.stdout or b"").decode() if isinstance(ex.stdout, bytes) else (ex.stdout or ""), "TIMEOUT", time.time() - t0


def coqc(vfile: Path, timeout=600, extra=()):
    """compile one .v under a shell-level timeout; returns (rc, stdout, stderr, secs)"""
    import shlex

    inner = " ".join(shlex.quote(x) for x in ["timeout", str(timeout), "coqc", *COQFLAGS, *extra, str(vfile)])
    cmd = ["bash", "-c", f"ulimit -s unlimited 2>/dev/null || ulimit -s 1000000 2>/dev/null; exec {inner}"]
    return run(cmd, timeout=timeout + 30, cwd=str(COQ))


# ---------------------------------------------------------------------------
# Python value -> Coq `val` literal


def cstr(s: str) -> str:
    return '"' + s.replace('"', '""') + '"'


def cz(z: int) -> str:
    z = int(z)
    return f"({z})%Z" if z < 0 else f"{z}%Z"


def frac_of_float(x: float) -> Fraction:
    """the rational the model uses for a Python float: its shortest round-trip decimal"""
    return Fraction(repr(float(x)))


def cq(fr: Fraction) -> str:
    return f"(qfrac ({fr.numerator}) {fr.denominator})"


def cxq(x) -> str:
    x = float(x)
    if x != x:
        return "XNaN"
    if x == float("inf"):
        return "XPosInf"
    if x == float("-inf"):
        return "XNegInf"
    return f"(XFin {cq(frac_of_float(x))})"


def py_to_val(v) -> str:
    import numpy as np

    if isinstance(v, (bool, np.bool_)):
        return f"(VBool {'true' if v else 'false'})"
    if isinstance(v, (int, np.integer)):
        return f"(VInt {cz(int(v))})"
    if isinstance(v, (float, np.floating)):
        return f"(VFloat {cxq(v)})"
    if isinstance(v, str):
        return f"(VStr {cstr(v)})"
    if v is None:
        return "VNone"
    if isinstance(v, np.datetime64):
        d = v.astype("datetime64[D]").astype(datetime.date)
        return f"(VDate {cz(d.toordinal())})"
    if isinstance(v, datetime.date):
        return f"(VDate {cz(v.toordinal())})"
    if isinstance(v, np.ndarray):
        return py_to_val(v.tolist())
    if isinstance(v, (list, tuple)):
        return "(VList [" + "; ".join(py_to_val(x) for x in v) + "])"
    if isinstance(v, dict):
        items = []
        for k, x in v.items():
            items.append(f"({py_to_key(k)}, {py_to_val(x)})")
        return "(VDict [" + "; ".join(items) + "])"
    raise TypeError(f"cannot render {type(v).__name__} as a model value")


def py_to_key(k) -> str:
    import numpy as np

    if isinstance(k, (bool, np.bool_)):
        return f"(KInt {cz(int(k))})"
    if isinstance(k, (int, np.integer)):
        return f"(KInt {cz(int(k))})"
    if isinstance(k, str):
        return f"(KStr {cstr(k)})"
    if isinstance(k, datetime.date):
        return f"(KDate {cz(k.toordinal())})"
    if isinstance(k, (float, np.floating)) and float(k) == int(k):
        return f"(KInt {cz(int(k))})"
    raise TypeError(f"cannot render key {k!r}")


EXC_MAP = {
    "KeyError": "EKey", "ZeroDivisionError": "EZeroDiv", "NotImplementedError": "ENotImpl",
    "TypeError": "EType", "ValueError": "EValue", "IndexError": "EIndex",
    "UnboundLocalError": "EUnbound", "NameError": "EUnbound", "FloatingPointError": "EZeroDiv",
    "OverflowError": "EValue",
}


# ---------------------------------------------------------------------------
# evidence / violations


def write_evidence(pid: str, tier: str, level: str, coverage: dict, wall_s: float,
                   assumptions=None, violations=0):
    EVID.mkdir(exist_ok=True)
    ev = dict(property_id=pid, tier=tier, seed=seed(), level=level, coverage=coverage,
              assumptions=assumptions or [], wall_s=round(wall_s, 2), violations=violations)
    tmp = EVID / f".{pid}.json.tmp"
    tmp.write_text(json.dumps(ev, ensure_ascii=False, indent=1, default=str), encoding="utf-8")
    tmp.replace(EVID / f"{pid}.json")


def write_replay(pid: str, tag: str, payload: dict) -> Path:
    REPLAYS.mkdir(exist_ok=True)
    p = REPLAYS / f"{pid}_{tag}.json"
    p.write_text(json.dumps(payload, ensure_ascii=False, indent=1, default=str), encoding="utf-8")
    return p


def load_known_findings():
    p = VERIF / "known_findings.json"
    if not p.exists():
        return []
    return json.loads(p.read_text(encoding="utf-8")).get("findings", [])
