#!/venv/bin/python
"""Regenerate /verif/c16_baseline.json: the nodes of the default targets' graph that the verified
sign analysis proves finite and non-negative at EVERY date class >= 2015 at which they exist.
Run by hand after deliberate changes of the analysis; the check never writes this file."""
import json
import sys
from pathlib import Path

sys.path.insert(0, str(Path(__file__).resolve().parent))
import common as C
import coqrun
import metam

PRELUDE = ("From GettsimModel Require Import Dag ChkC16 Corr.\nFrom GettsimGen Require Import GenRules GenYaml GenDag GenConfig.\n"
           "Definition PA := params_at yaml_groups internal_params_groups.\n")
ds = [d for d in metam.dag_dates() if d >= 735599]
exprs = [f'match find (fun od => Z.eqb (fst od) {d}) dags, PA {d} with Some od, Ok p => String.concat ";" (nn_nodes all_fundefs p (inputs_nonneg dag_data_cols) '
         f'(subgraph (snd od) default_targets) []) ++ "|" ++ String.concat ";" (map d_name (subgraph (snd od) default_targets)) | _, _ => "ERR" end' for d in ds]
r = coqrun.eval_strings("C16_baseline", PRELUDE + "Open Scope Z_scope.\n", exprs, timeout=1800)
proved_all, exists_any = None, set()
never = set()
for s in r:
    pr, ex = s.split("|")
    pr, ex = set(pr.replace(" ", "").split(";")), set(ex.replace(" ", "").split(";"))
    never |= (ex - pr)
    exists_any |= ex
base = sorted(exists_any - never)
json.dump(dict(note="nodes proved finite and non-negative at every date class >= 2015 where they exist", nodes=base),
          open(C.VERIF / "c16_baseline.json", "w"), indent=1, ensure_ascii=False)
print(len(base), "baseline nodes;", len(exists_any), "nodes overall")
