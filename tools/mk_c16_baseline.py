#!/venv/bin/python
"""Regenerate /verif/c16_baseline.json: the nodes of the default targets' graph that the verified
abstract interpreter (Absint.v) proves FINITE, and those it proves finite and NON-NEGATIVE, at EVERY
dumped date >= 2015 at which they exist.  Run by hand after deliberate changes of the analysis; the
check never writes this file."""
import json
import sys
from pathlib import Path

sys.path.insert(0, str(Path(__file__).resolve().parent))
import common as C
import coqrun
import metam

PRELUDE = ("From GettsimModel Require Import Dag ChkC16 Corr Absint Itv.\nFrom GettsimGen Require Import GenRules GenYaml GenDag GenConfig.\n"
           "Definition PA := params_at yaml_groups internal_params_groups.\n")
ds = [d for d in metam.dag_dates() if d >= 735599]
exprs = [f'match find (fun od => Z.eqb (fst od) {d}) dags, PA {d} with Some od, Ok p => let K := a_nodes all_fundefs p dag_data_cols '
         f'(subgraph (snd od) default_targets) [] in String.concat ";" (nodes_with a_nn K) ++ "|" ++ String.concat ";" (nodes_with a_fin K) ++ "|" ++ '
         f'String.concat ";" (map fst K) ++ "|" ++ String.concat ";" (flat_map (fun xa => match itv_of (snd xa) with Some i => match hi i with Some h => [fst xa ++ "=" ++ show_q h] | None => [] end | None => [] end) K) | _, _ => "ERR" end' for d in ds]
r = coqrun.eval_strings("C16_baseline", PRELUDE + "Open Scope Z_scope.\n", exprs, timeout=1800)
per = {}
tot_nn = tot_fin = tot = 0
for d, line in zip(ds, r):
    nn, fin, ex, his = [set(x.replace(" ", "").split(";")) - {""} for x in line.split("|")]
    per[str(d)] = dict(nn=sorted(nn), fin_only=sorted(fin - nn), not_proved=sorted(ex - fin),
                       upper=dict(sorted(h.split("=") for h in his)))
    tot_nn += len(nn); tot_fin += len(fin); tot += len(ex)
out = dict(note="per dumped date >= 2015: nodes of the default targets' graph proved finite and non-negative (nn) / finite only (fin_only) / not proved",
           dates=per)
json.dump(out, open(C.VERIF / "c16_baseline.json", "w"), indent=0, ensure_ascii=False)
print(f"{len(ds)} dates; node-dates: {tot}; proved finite {tot_fin}; of these non-negative {tot_nn}")
