#!/bin/bash
# seedverify.sh <seed_out_dir/mutation_k> <PROPERTY> <name>: confirm a seeded change in a scratch worktree
# (demo passes without / fails with the change; the existing suite still passes) and archive it under /verif/seeded
src="$1"; prop="$2"; name="$3"
wt=/tmp/seedverify_$$
git -C /repo worktree add -q --detach $wt HEAD || exit 2
out=/verif/seeded/$name; mkdir -p $out
cp "$src/patch.diff" $out/patch.diff; cp "$src/demo.py" $out/demo.py; [ -f "$src/notes.md" ] && cp "$src/notes.md" $out/notes.md
( cd $wt && PYTHONPATH=$wt/src timeout 900 /venv/bin/python $out/demo.py > $out/demo_clean.log 2>&1 ); rc_clean=$?
git -C $wt apply $out/patch.diff || { echo "patch does not apply"; git -C /repo worktree remove --force $wt; exit 2; }
( cd $wt && PYTHONPATH=$wt/src timeout 900 /venv/bin/python $out/demo.py > $out/demo_mutated.log 2>&1 ); rc_mut=$?
suite=$(/venv/bin/python /verif/tools/run_suite.py $wt 2>&1 | grep baseline)
git -C /repo worktree remove --force $wt
echo "$name: demo clean rc=$rc_clean mutated rc=$rc_mut; $suite"
python3 - <<PY
import json
json.dump(dict(property="$prop", name="$name", demo_rc_clean=$rc_clean, demo_rc_mutated=$rc_mut, suite="$suite",
               confirmed=($rc_clean==0 and $rc_mut!=0 and "not passing: 0" in "$suite"),
               ran=["demo.py on a clean scratch worktree of /repo HEAD", "demo.py with patch.diff applied", "tools/run_suite.py (full pytest suite vs BASELINE stable_pass) with patch.diff applied"]),
          open("$out/meta.json","w"), indent=1)
PY
