#!/bin/bash
# seedtest.sh <patch.diff> <ID> [<ID> ...] : apply a seeded change to /repo, run the quick checks, undo it
patch="$1"; shift
cd /repo && git status --short | grep -q . && { echo "/repo not clean"; exit 2; }
git -C /repo apply "$patch" || { echo "patch does not apply"; exit 2; }
for id in "$@"; do
  echo "=== $id"
  (cd /verif && timeout 3000 ./check "$id" --tier quick 2>&1 | grep "^VIOLATION\|^KNOWN\|^$id\|MACHINERY" | cut -c1-400 | sort -r | head -14)
done
git -C /repo checkout -- .
git -C /repo status --short | head -3
