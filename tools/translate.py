#!/venv/bin/python
"""Fail-closed translator  /repo/src/_gettsim  ->  Coq (GettsimGen.*).

Emits, into /verif/coq/gen/:
  GenRules.v     every top-level function of the rule modules as a `fundef`
                 (deep embedding of Ast.v); functions using an idiom outside the
                 grammar get `f_body := None` (Opaque) and are listed in rules.json
  GenRegistry.v  one `reginfo` per function (policy_info decorator read off the AST,
                 cross-checked against the imported modules' __info__)
  GenYaml.v      every parameter file as a raw YAML tree (`val`), key order kept
  GenConfig.v    config tables + aggregation specs + date classes
  rules.json     side-car metadata for the harnesses

Nothing is approximated: any AST node not explicitly handled raises Untranslatable
for that function.
"""
from __future__ import annotations

import ast
import datetime
import hashlib
import json
import os
import sys
from fractions import Fraction
from pathlib import Path

REPO = Path(os.environ.get("GETTSIM_REPO", "/repo"))
SRC = REPO / "src" / "_gettsim"
GEN = Path(__file__).resolve().parent.parent / "coq" / "gen"

RULE_DIRS = ["social_insurance_contributions", "transfers", "taxes"]
RULE_FILES = ["demographic_vars.py"]


class Untranslatable(Exception):
    pass


# ----------------------------------------------------------------------------
# Coq text helpers


def cstr(s: str) -> str:
    return '"' + s.replace('"', '""') + '"'


def cz(z: int) -> str:
    return f"({z})%Z" if z < 0 else f"{z}%Z"


def cfrac(x) -> str:
    """exact decimal value of a float literal (repr round-trips)"""
    fr = Fraction(repr(x)) if isinstance(x, float) else Fraction(x)
    return f"(qfrac ({fr.numerator}) {fr.denominator})"


def clist(items) -> str:
    return "[" + "; ".join(items) + "]"


def cexprs(items) -> str:
    out = "ENil"
    for it in reversed(items):
        out = f"(ECons {it} {out})"
    return out


def mangle(name: str) -> str:
    tab = {"ä": "ae", "ö": "oe", "ü": "ue", "ß": "ss", "Ä": "Ae", "Ö": "Oe", "Ü": "Ue"}
    out = "".join(tab.get(c, c) for c in name)
    out = "".join(c if (c.isascii() and (c.isalnum() or c == "_")) else "_" for c in out)
    return out


# ----------------------------------------------------------------------------
# rule modules


def rule_paths():
    paths = []
    for d in RULE_DIRS:
        paths.extend(sorted((SRC / d).rglob("*.py")))
    for f in RULE_FILES:
        paths.append(SRC / f)
    return paths


BINOPS = {
    ast.Add: "Add", ast.Sub: "Sub", ast.Mult: "Mul", ast.Div: "Div",
    ast.FloorDiv: "FloorDiv", ast.Mod: "Mod", ast.Pow: "Pow",
}
CMPOPS = {
    ast.Lt: "Lt", ast.LtE: "LtE", ast.Gt: "Gt", ast.GtE: "GtE",
    ast.Eq: "Eq", ast.NotEq: "NotEq",
}
SIMPLE_BUILTINS = {
    "max": "BMax", "min": "BMin", "sum": "BSum", "any": "BAny", "all": "BAll",
    "float": "BFloat", "int": "BInt", "len": "BLen", "sorted": "BSorted",
    "list": "BList", "range": "BRange", "abs": "BAbs",
}


class FunTx:
    def __init__(self, sigs):
        self.sigs = sigs  # python function name -> list of arg names (all modules)

    # -- expressions --
    def e(self, n) -> str:
        if isinstance(n, ast.Constant):
            v = n.value
            if isinstance(v, bool):
                return f"(EBool {'true' if v else 'false'})"
            if isinstance(v, int):
                return f"(EInt {cz(v)})"
            if isinstance(v, float):
                if v != v or v in (float("inf"), float("-inf")):
                    raise Untranslatable("non-finite literal")
                return f"(EFloat {cfrac(v)})"
            if isinstance(v, str):
                return f"(EStr {cstr(v)})"
            if v is None:
                return "ENone"
            raise Untranslatable(f"constant {type(v).__name__}")
        if isinstance(n, ast.Name):
            return f"(EVar {cstr(n.id)})"
        if isinstance(n, ast.Attribute):
            src = ast.unparse(n)
            if src in ("np.inf", "numpy.inf"):
                return "EInf"
            raise Untranslatable(f"attribute {src}")
        if isinstance(n, ast.BinOp):
            if type(n.op) not in BINOPS:
                raise Untranslatable(f"binop {type(n.op).__name__}")
            if isinstance(n.op, ast.Mult) and isinstance(n.left, ast.List):
                return f"(EBuiltin BRepeat {cexprs([self.e(n.left), self.e(n.right)])})"
            return f"(EBin {BINOPS[type(n.op)]} {self.e(n.left)} {self.e(n.right)})"
        if isinstance(n, ast.UnaryOp):
            if isinstance(n.op, ast.USub):
                return f"(ENeg {self.e(n.operand)})"
            if isinstance(n.op, ast.Not):
                return f"(ENot {self.e(n.operand)})"
            if isinstance(n.op, ast.UAdd):
                return self.e(n.operand)
            raise Untranslatable("unaryop")
        if isinstance(n, ast.BoolOp):
            con = "EAnd" if isinstance(n.op, ast.And) else "EOr"
            vals = [self.e(v) for v in n.values]
            out = vals[-1]
            for v in reversed(vals[:-1]):
                out = f"({con} {v} {out})"
            return out
        if isinstance(n, ast.Compare):
            parts = []
            left = n.left
            for op, right in zip(n.ops, n.comparators):
                if type(op) in CMPOPS:
                    parts.append(f"(ECmp {CMPOPS[type(op)]} {self.e(left)} {self.e(right)})")
                elif isinstance(op, (ast.In, ast.NotIn)):
                    if isinstance(right, (ast.Set, ast.Tuple)):
                        # membership in a literal set / tuple: order-free, modelled as a list
                        if any(isinstance(el, ast.Starred) for el in right.elts):
                            raise Untranslatable("starred in set literal")
                        cont = f"(EListLit {cexprs([self.e(el) for el in right.elts])})"
                    else:
                        cont = self.e(right)
                    ng = "true" if isinstance(op, ast.NotIn) else "false"
                    parts.append(f"(EIn {ng} {self.e(left)} {cont})")
                else:
                    raise Untranslatable(f"cmpop {type(op).__name__}")
                left = right
            out = parts[-1]
            for p in reversed(parts[:-1]):
                out = f"(EAnd {p} {out})"
            return out
        if isinstance(n, ast.IfExp):
            return f"(EIfE {self.e(n.test)} {self.e(n.body)} {self.e(n.orelse)})"
        if isinstance(n, ast.Subscript):
            base = self.e(n.value)
            sl = n.slice
            if isinstance(sl, ast.Tuple):
                for el in sl.elts:
                    base = f"(ESub {base} {self.e(el)})"
                return base
            if isinstance(sl, ast.Slice):
                raise Untranslatable("slice")
            return f"(ESub {base} {self.e(sl)})"
        if isinstance(n, ast.List):
            segs = []
            cur = []
            for el in n.elts:
                if isinstance(el, ast.Starred):
                    if cur:
                        segs.append(f"(EListLit {cexprs(cur)})")
                        cur = []
                    segs.append(self.e(el.value))
                else:
                    cur.append(self.e(el))
            if cur or not segs:
                segs.append(f"(EListLit {cexprs(cur)})")
            out = segs[0]
            if isinstance(n.elts[0], ast.Starred) if n.elts else False:
                out = f"(EBuiltin BList {cexprs([out])})"
            for s in segs[1:]:
                out = f"(EBuiltin BConcat {cexprs([out, s])})"
            return out
        if isinstance(n, (ast.GeneratorExp, ast.ListComp)):
            if len(n.generators) != 1:
                raise Untranslatable("nested comprehension")
            g = n.generators[0]
            if g.is_async or not isinstance(g.target, ast.Name) or len(g.ifs) > 1:
                raise Untranslatable("comprehension shape")
            cond = self.e(g.ifs[0]) if g.ifs else "(EBool true)"
            return f"(EComp {self.e(n.elt)} {cstr(g.target.id)} {self.e(g.iter)} {cond})"
        if isinstance(n, ast.Call):
            return self.call(n)
        raise Untranslatable(f"expr {type(n).__name__}")

    def call(self, n: ast.Call) -> str:
        f = n.func
        fsrc = ast.unparse(f)
        if any(isinstance(a, ast.Starred) for a in n.args) or any(k.arg is None for k in n.keywords):
            raise Untranslatable("star args")
        if isinstance(f, ast.Name):
            name = f.id
            if name in SIMPLE_BUILTINS:
                if n.keywords:
                    raise Untranslatable(f"keywords to {name}")
                cargs = n.args
                if (name in ("min", "max") and len(cargs) == 1 and isinstance(cargs[0], ast.List) and len(cargs[0].elts) >= 2
                        and not any(isinstance(x, ast.Starred) for x in cargs[0].elts)):
                    cargs = cargs[0].elts        # min([a, b]) is min(a, b): same value, same first-extremal rule
                return f"(EBuiltin {SIMPLE_BUILTINS[name]} {cexprs([self.e(a) for a in cargs])})"
            if name == "next" and len(n.args) == 1 and not n.keywords and isinstance(n.args[0], ast.Call) \
                    and isinstance(n.args[0].func, ast.Name) and n.args[0].func.id == "iter" and len(n.args[0].args) == 1 and not n.args[0].keywords:
                # next(iter(X)) is list(X)[0] (first element / first key; both raise on an empty X)
                return f"(ESub (EBuiltin BList {cexprs([self.e(n.args[0].args[0])])}) (EInt 0%Z))"
            if name == "isinstance":
                if len(n.args) == 2 and ast.unparse(n.args[1]) == "int":
                    return f"(EBuiltin BIsInt {cexprs([self.e(n.args[0])])})"
                raise Untranslatable("isinstance")
            if name == "piecewise_polynomial":
                order = ["x", "thresholds", "rates", "intercepts_at_lower_thresholds", "rates_multiplier"]
                args = self.resolve(order, n, optional={"rates_multiplier"})
                if len(args) == 5:
                    return f"(EBuiltin BPiecewiseMult {cexprs(args)})"
                return f"(EBuiltin BPiecewise {cexprs(args)})"
            if name in self.sigs:
                args = self.resolve(self.sigs[name], n)
                return f"(ECall {cstr(name)} {cexprs(args)})"
            raise Untranslatable(f"call {name}")
        if fsrc in ("np.searchsorted", "numpy.searchsorted"):
            args = self.resolve(["a", "v", "side"], n, optional={"side"}, raw={"side"})
            side = "left"
            if len(args) == 3:
                side = args[2]
                args = args[:2]
            b = {"left": "BSearchLeft", "right": "BSearchRight"}.get(side)
            if b is None:
                raise Untranslatable("searchsorted side")
            return f"(EBuiltin {b} {cexprs(args)})"
        if fsrc in ("np.array", "numpy.array"):
            if len(n.args) == 1 and not n.keywords:
                return f"(EBuiltin BNpArray {cexprs([self.e(n.args[0])])})"
            raise Untranslatable("np.array shape")
        if isinstance(f, ast.Attribute):
            if f.attr == "values" and not n.args and not n.keywords:
                return f"(EBuiltin BValues {cexprs([self.e(f.value)])})"
            if f.attr == "keys" and not n.args and not n.keywords:
                return f"(EBuiltin BKeys {cexprs([self.e(f.value)])})"
            if f.attr == "get" and len(n.args) in (1, 2) and not n.keywords:
                dflt = self.e(n.args[1]) if len(n.args) == 2 else "ENone"
                return f"(EBuiltin BGet {cexprs([self.e(f.value), self.e(n.args[0]), dflt])})"
        raise Untranslatable(f"call {fsrc}")

    def resolve(self, order, n: ast.Call, optional=frozenset(), raw=frozenset()):
        """positional + keyword arguments -> positional list following `order`"""
        got = {}
        if len(n.args) > len(order):
            raise Untranslatable("too many args")
        for name, a in zip(order, n.args):
            got[name] = a
        for k in n.keywords:
            if k.arg not in order or k.arg in got:
                raise Untranslatable(f"keyword {k.arg}")
            got[k.arg] = k.value
        out = []
        missing_seen = False
        for name in order:
            if name in got:
                if missing_seen:
                    raise Untranslatable("gap in arguments")
                if name in raw:
                    if not (isinstance(got[name], ast.Constant) and isinstance(got[name].value, str)):
                        raise Untranslatable("raw arg")
                    out.append(got[name].value)
                else:
                    out.append(self.e(got[name]))
            elif name in optional:
                missing_seen = True
            else:
                raise Untranslatable(f"missing argument {name}")
        return out

    # -- statements --
    def block(self, stmts) -> str:
        items = [self.s(s) for s in stmts]
        items = [i for i in items if i is not None]
        if not items:
            return "SSkip"
        out = items[-1]
        for it in reversed(items[:-1]):
            out = f"(SSeq {it} {out})"
        return out

    def s(self, n):
        if isinstance(n, ast.Expr):
            if isinstance(n.value, ast.Constant) and isinstance(n.value.value, str):
                return None  # docstring
            raise Untranslatable("expression statement")
        if isinstance(n, ast.Assign):
            if len(n.targets) != 1 or not isinstance(n.targets[0], ast.Name):
                raise Untranslatable("assign target")
            return f"(SAssign {cstr(n.targets[0].id)} {self.e(n.value)})"
        if isinstance(n, ast.AugAssign):
            if not isinstance(n.target, ast.Name) or type(n.op) not in BINOPS:
                raise Untranslatable("augassign")
            return f"(SAug {cstr(n.target.id)} {BINOPS[type(n.op)]} {self.e(n.value)})"
        if isinstance(n, ast.If):
            return f"(SIf {self.e(n.test)} {self.block(n.body)} {self.block(n.orelse)})"
        if isinstance(n, ast.Return):
            return f"(SReturn {self.e(n.value) if n.value is not None else 'ENone'})"
        if isinstance(n, ast.Raise):
            src = ast.unparse(n.exc) if n.exc else ""
            if src.startswith("NotImplementedError"):
                return "(SRaise ENotImpl)"
            if src.startswith("ValueError"):
                return "(SRaise EValue)"
            raise Untranslatable("raise")
        if isinstance(n, ast.Pass):
            return None
        raise Untranslatable(f"stmt {type(n).__name__}")


def annot(n) -> str:
    if n is None:
        return "None"
    src = ast.unparse(n)
    tab = {
        "int": "AInt", "float": "AFloat", "bool": "ABool", "dict": "ADict",
        "numpy.datetime64": "ADate", "np.datetime64": "ADate",
    }
    if src in tab:
        return f"(Some {tab[src]})"
    for pre in ("numpy.ndarray[", "np.ndarray["):
        if src.startswith(pre) and src.endswith("]"):
            inner = src[len(pre):-1]
            if inner in tab:
                return f"(Some (AArr {tab[inner]}))"
    return "(Some AOther)"


def annot_py(n):
    return None if n is None else ast.unparse(n)


MIN_ORD = datetime.date(1, 1, 1).toordinal()
MAX_ORD = datetime.date(9999, 12, 31).toordinal()


def policy_info_of(fd: ast.FunctionDef):
    info = None
    for d in fd.decorator_list:
        if isinstance(d, ast.Call) and ast.unparse(d.func) == "policy_info":
            if info is not None:
                raise RuntimeError(f"two policy_info decorators on {fd.name}")
            info = {}
            if d.args:
                raise RuntimeError("positional policy_info args")
            for k in d.keywords:
                if not isinstance(k.value, ast.Constant):
                    raise RuntimeError(f"non-literal policy_info argument on {fd.name}")
                info[k.arg] = k.value.value
        else:
            raise RuntimeError(f"unknown decorator on {fd.name}: {ast.unparse(d)}")
    return info


def collect_functions():
    """[(module, path, FunctionDef)] for all top-level functions of the rule modules"""
    out = []
    for p in rule_paths():
        rel = p.relative_to(SRC.parent).with_suffix("").as_posix().replace("/", ".")
        tree = ast.parse(p.read_text(encoding="utf-8"))
        for node in tree.body:
            if isinstance(node, ast.FunctionDef):
                out.append((rel, p, node))
    return out


def translate_rules():
    funs = collect_functions()
    sigs = {}
    for mod, _p, fd in funs:
        a = fd.args
        names = [x.arg for x in a.posonlyargs + a.args]
        sigs[fd.name] = names
    tx = FunTx(sigs)
    lines = [
        "(* GENERATED by tools/translate.py from /repo/src/_gettsim — do not edit *)",
        "From Coq Require Import ZArith QArith Qcanon Bool String List.",
        "From GettsimModel Require Import Num Val Ast.",
        "Import ListNotations.",
        "Open Scope string_scope.",
        "",
    ]
    meta = []
    names_seen = {}
    defs = []
    regs = []
    for mod, p, fd in funs:
        a = fd.args
        reason = None
        body = None
        if a.vararg or a.kwarg or a.kwonlyargs or a.defaults or a.kw_defaults:
            reason = "signature with defaults / varargs"
        else:
            try:
                body = tx.block(fd.body)
            except Untranslatable as ex:
                reason = str(ex)
        m = "fd_" + mangle(fd.name)
        if m in names_seen:
            names_seen[m] += 1
            m = f"{m}__{names_seen[m]}"
        else:
            names_seen[m] = 0
        args = clist(
            [f"({cstr(x.arg)}, {annot(x.annotation)})" for x in a.posonlyargs + a.args]
        )
        body_c = f"(Some {body})" if body is not None else "None"
        lines.append(f"(* {mod}.{fd.name}" + (f"   OPAQUE: {reason}" if reason else "") + " *)")
        lines.append(
            f"Definition {m} : fundef := {{| f_name := {cstr(fd.name)}; f_args := {args}; "
            f"f_ret := {annot(fd.returns)}; f_body := {body_c} |}}."
        )
        defs.append((fd.name, m))
        info = policy_info_of(fd)
        start = MIN_ORD
        end = MAX_ORD
        dag = fd.name
        rnd = None
        skip = False
        if info is not None:
            if "start_date" in info:
                start = datetime.date.fromisoformat(info["start_date"]).toordinal()
            if "end_date" in info:
                end = datetime.date.fromisoformat(info["end_date"]).toordinal()
            if info.get("name_in_dag"):
                dag = info["name_in_dag"]
            rnd = info.get("params_key_for_rounding")
            skip = bool(info.get("skip_vectorization", False))
        regs.append(
            dict(fun=fd.name, module=mod, dag=dag, start=start, end=end, round=rnd,
                 skipvec=skip, timedep=info is not None)
        )
        meta.append(
            dict(
                name=fd.name, coq=m, module=mod, file=str(p.relative_to(REPO)),
                lineno=fd.lineno, args=[x.arg for x in a.posonlyargs + a.args],
                arg_annots=[annot_py(x.annotation) for x in a.posonlyargs + a.args],
                ret=annot_py(fd.returns), opaque=reason, dag=dag, start=start, end=end,
                round=rnd, skipvec=skip, timedep=info is not None,
            )
        )
    lines.append("")
    lines.append("Definition all_fundefs : list (string * fundef) :=")
    lines.append("  " + clist([f"({cstr(n)}, {m})" for n, m in defs]) + ".")
    (GEN / "GenRules.v").write_text("\n".join(lines) + "\n", encoding="utf-8")

    rl = [
        "(* GENERATED by tools/translate.py — do not edit *)",
        "From Coq Require Import ZArith Bool String List.",
        "From GettsimModel Require Import Num Val Ast.",
        "Import ListNotations.",
        "Open Scope string_scope.",
        "",
        "Definition registry : list reginfo :=",
    ]
    items = []
    for r in regs:
        rnd = f"(Some {cstr(r['round'])})" if r["round"] is not None else "None"
        items.append(
            f"{{| r_fun := {cstr(r['fun'])}; r_module := {cstr(r['module'])}; r_dag := {cstr(r['dag'])}; "
            f"r_start := {cz(r['start'])}; r_end := {cz(r['end'])}; r_round := {rnd}; "
            f"r_skipvec := {'true' if r['skipvec'] else 'false'}; r_timedep := {'true' if r['timedep'] else 'false'} |}}"
        )
    rl.append("  [" + ";\n   ".join(items) + "].")
    (GEN / "GenRegistry.v").write_text("\n".join(rl) + "\n", encoding="utf-8")
    return meta


# ----------------------------------------------------------------------------
# cross-check of the AST-derived registry against the imported modules


def crosscheck_registry(meta):
    sys.path.insert(0, str(REPO / "src"))
    import importlib

    problems = []
    by_mod = {}
    for m in meta:
        by_mod.setdefault(m["module"], []).append(m)
    for mod, ms in by_mod.items():
        pym = importlib.import_module(mod)
        for m in ms:
            f = getattr(pym, m["name"], None)
            if f is None:
                problems.append(f"{mod}.{m['name']}: not importable")
                continue
            info = getattr(f, "__info__", None)
            if (info is not None) != m["timedep"]:
                problems.append(f"{mod}.{m['name']}: decorator presence differs")
                continue
            if info is not None:
                got = (
                    info["name_in_dag"], info["start_date"].toordinal(), info["end_date"].toordinal(),
                    info.get("params_key_for_rounding"), bool(info.get("skip_vectorization", False)),
                )
                want = (m["dag"], m["start"], m["end"], m["round"], m["skipvec"])
                if got != want:
                    problems.append(f"{mod}.{m['name']}: __info__ {got} != AST {want}")
    return problems


# ----------------------------------------------------------------------------
# YAML


def yaml_val(v) -> str:
    if isinstance(v, bool):
        return f"(VBool {'true' if v else 'false'})"
    if isinstance(v, int):
        return f"(VInt {cz(v)})"
    if isinstance(v, float):
        if v == float("inf"):
            return "(VFloat XPosInf)"
        if v == float("-inf"):
            return "(VFloat XNegInf)"
        if v != v:
            return "(VFloat XNaN)"
        return f"(VFloat (XFin {cfrac(v)}))"
    if isinstance(v, str):
        return f"(VStr {cstr(v)})"
    if v is None:
        return "VNone"
    if isinstance(v, datetime.date):
        return f"(VDate {cz(v.toordinal())})"
    if isinstance(v, list):
        return f"(VList {clist([yaml_val(x) for x in v])})"
    if isinstance(v, dict):
        items = []
        for k, x in v.items():
            items.append(f"({yaml_key(k)}, {yaml_val(x)})")
        return f"(VDict {clist(items)})"
    raise RuntimeError(f"yaml value of type {type(v).__name__}")


TEXT_KEYS = {"name", "description", "reference", "note", "reference_period", "unit"}


def yaml_key(k) -> str:
    if isinstance(k, bool):
        raise RuntimeError("bool yaml key")
    if isinstance(k, int):
        return f"(KInt {cz(k)})"
    if isinstance(k, str):
        return f"(KStr {cstr(k)})"
    if isinstance(k, datetime.date):
        return f"(KDate {cz(k.toordinal())})"
    if isinstance(k, float) and k == int(k):
        return f"(KInt {cz(int(k))})"
    raise RuntimeError(f"yaml key of type {type(k).__name__}: {k!r}")


def strip_text(v, depth=0):
    """replace prose (name/description/reference/note values) by "" — keys are kept"""
    if isinstance(v, dict):
        out = {}
        for k, x in v.items():
            if isinstance(k, str) and k in TEXT_KEYS and not isinstance(x, (int, float, bool)) :
                out[k] = "" if not isinstance(x, dict) else {kk: "" for kk in x}
            else:
                out[k] = strip_text(x, depth + 1)
        return out
    return v


def translate_yaml():
    import yaml

    sys.path.insert(0, str(REPO / "src"))
    groups = read_config()["INTERNAL_PARAMS_GROUPS"]
    lines = [
        "(* GENERATED by tools/translate.py from /repo/src/_gettsim/parameters — do not edit *)",
        "From Coq Require Import ZArith QArith Qcanon Bool String List.",
        "From GettsimModel Require Import Num Val.",
        "Import ListNotations.",
        "Open Scope string_scope.",
        "",
    ]
    all_dates = set()
    raw = {}
    for g in groups:
        p = SRC / "parameters" / f"{g}.yaml"
        data = yaml.load(p.read_text(encoding="utf-8"), Loader=yaml.CLoader)
        raw[g] = data
        collect_dates(data, all_dates)
        lines.append(f"Definition yaml_{mangle(g)} : val := {yaml_val(strip_text(data))}.")
        lines.append("")
    lines.append("Definition yaml_groups : list (string * val) :=")
    lines.append("  " + clist([f"({cstr(g)}, yaml_{mangle(g)})" for g in groups]) + ".")
    (GEN / "GenYaml.v").write_text("\n".join(lines) + "\n", encoding="utf-8")
    return raw, sorted(all_dates)


def collect_dates(v, acc):
    if isinstance(v, dict):
        for k, x in v.items():
            if isinstance(k, datetime.date):
                acc.add(k)
            collect_dates(x, acc)


# ----------------------------------------------------------------------------
# config


def read_config():
    sys.path.insert(0, str(REPO / "src"))
    import importlib

    cfg = importlib.import_module("_gettsim.config")
    return dict(
        SUPPORTED_GROUPINGS=list(cfg.SUPPORTED_GROUPINGS),
        SUPPORTED_TIME_UNITS=list(cfg.SUPPORTED_TIME_UNITS),
        DEFAULT_TARGETS=list(cfg.DEFAULT_TARGETS),
        TYPES_INPUT_VARIABLES={k: v.__name__ for k, v in cfg.TYPES_INPUT_VARIABLES.items()},
        FOREIGN_KEYS=list(cfg.FOREIGN_KEYS),
        INTERNAL_PARAMS_GROUPS=list(cfg.INTERNAL_PARAMS_GROUPS),
    )


def date_classes(yaml_dates, meta):
    ds = set(d.toordinal() for d in yaml_dates)
    for m in meta:
        if m["start"] > MIN_ORD:
            ds.add(m["start"])
        if m["end"] < MAX_ORD:
            ds.add(m["end"] + 1)
    lo = datetime.date(1980, 1, 1).toordinal()
    last = max(d for d in ds)
    last_year = datetime.date.fromordinal(last).year + 1
    # +1 year shifts (access_different_date: vorjahr)
    shifted = set()
    for o in list(ds):
        d = datetime.date.fromordinal(o)
        try:
            shifted.add(d.replace(year=d.year + 1).toordinal())
        except ValueError:
            shifted.add(d.replace(year=d.year + 1, day=28).toordinal())
            shifted.add(d.replace(year=d.year + 1, month=3, day=1).toordinal())
    ds |= shifted
    for y in range(1980, last_year + 2):
        ds.add(datetime.date(y, 1, 1).toordinal())
    hi = datetime.date(last_year + 1, 1, 1).toordinal()
    ds = sorted(d for d in ds if lo <= d <= hi)
    if ds[0] != lo:
        ds.insert(0, lo)
    return ds


def translate_config(meta, yaml_dates):
    sys.path.insert(0, str(REPO / "src"))
    cfg = read_config()
    from _gettsim.functions_loader import load_aggregation_dict

    by_group = load_aggregation_dict("aggregate_by_group")
    by_pid = load_aggregation_dict("aggregate_by_p_id")
    tyname = {"int": "TInt", "float": "TFloat", "bool": "TBool"}
    dcs = date_classes(yaml_dates, meta)
    lines = [
        "(* GENERATED by tools/translate.py — do not edit *)",
        "From Coq Require Import ZArith Bool String List.",
        "From GettsimModel Require Import Num Val.",
        "Import ListNotations.",
        "Open Scope string_scope.",
        "",
        f"Definition supported_groupings : list string := {clist([cstr(x) for x in cfg['SUPPORTED_GROUPINGS']])}.",
        f"Definition supported_time_units : list string := {clist([cstr(x) for x in cfg['SUPPORTED_TIME_UNITS']])}.",
        f"Definition default_targets : list string := {clist([cstr(x) for x in cfg['DEFAULT_TARGETS']])}.",
        f"Definition foreign_keys : list string := {clist([cstr(x) for x in cfg['FOREIGN_KEYS']])}.",
        f"Definition internal_params_groups : list string := {clist([cstr(x) for x in cfg['INTERNAL_PARAMS_GROUPS']])}.",
        "Definition types_input_variables : list (string * dtype) :=",
        "  " + clist([f"({cstr(k)}, {tyname[v]})" for k, v in cfg["TYPES_INPUT_VARIABLES"].items()]) + ".",
        "(* (agg_col, aggr, source_col or \"\") *)",
        "Definition aggregate_by_group_specs : list (string * (string * string)) :=",
        "  " + clist([f"({cstr(k)}, ({cstr(v['aggr'])}, {cstr(v.get('source_col', ''))}))" for k, v in by_group.items()]) + ".",
        "(* (agg_col, (aggr, (source_col, p_id_to_aggregate_by))) *)",
        "Definition aggregate_by_p_id_specs : list (string * (string * (string * string))) :=",
        "  " + clist([f"({cstr(k)}, ({cstr(v['aggr'])}, ({cstr(v.get('source_col', ''))}, {cstr(v['p_id_to_aggregate_by'])})))" for k, v in by_pid.items()]) + ".",
        "(* first day of every date class (ordinals), 1980-01-01 .. one year after the last entry *)",
        f"Definition date_classes : list Z := {clist([cz(d) for d in dcs])}.",
    ]
    (GEN / "GenConfig.v").write_text("\n".join(lines) + "\n", encoding="utf-8")
    cfg["aggregate_by_group"] = by_group
    cfg["aggregate_by_p_id"] = by_pid
    cfg["date_classes"] = dcs
    return cfg


def source_hash() -> str:
    h = hashlib.sha256()
    for p in sorted(SRC.rglob("*")):
        if p.is_file() and p.suffix in (".py", ".yaml") and "__pycache__" not in p.parts:
            h.update(str(p.relative_to(SRC)).encode())
            h.update(p.read_bytes())
    h.update(Path(__file__).read_bytes())
    h.update((Path(__file__).parent / "dagdump.py").read_bytes())
    return h.hexdigest()


def main():
    GEN.mkdir(parents=True, exist_ok=True)
    meta = translate_rules()
    problems = crosscheck_registry(meta)
    raw, ydates = translate_yaml()
    cfg = translate_config(meta, ydates)
    out = dict(
        source_hash=source_hash(),
        functions=meta,
        registry_problems=problems,
        config=cfg,
        yaml_dates=[d.isoformat() for d in ydates],
    )
    (GEN / "rules.json").write_text(json.dumps(out, ensure_ascii=False, indent=1, default=str), encoding="utf-8")
    n = len(meta)
    op = [m for m in meta if m["opaque"]]
    print(f"translated {n - len(op)}/{n} functions; opaque: {len(op)}; registry problems: {len(problems)}; "
          f"date classes: {len(cfg['date_classes'])}")
    for m in op:
        print(f"  OPAQUE {m['module']}.{m['name']}: {m['opaque']}")
    for p in problems:
        print("  REGISTRY", p)


if __name__ == "__main__":
    main()
