"""U7 — whole-engine correspondence: Table.run_table (the concrete Coq engine over the regenerated
rule ASTs, the model environment and the real loader's graph) vs compute_taxes_and_transfers,
column by column, on small generated populations."""
from __future__ import annotations

import json
from fractions import Fraction

import common as C
import engine
import impl
import metam
import modelio as M
import popgen

PRELUDE = ("From GettsimModel Require Import Column Dag Table CorrAgg.\nFrom GettsimGen Require Import GenRules GenYaml GenConfig GenDag.\n"
           "Definition PA := params_at yaml_groups internal_params_groups.\n")


def coq_column(series):
    kind = series.dtype.kind
    vals = series.to_numpy()
    if kind == "b":
        return "(CBool [" + "; ".join("true" if v else "false" for v in vals) + "])"
    if kind in "iu":
        return "(CInt [" + "; ".join(C.cz(int(v)) for v in vals) + "])"
    if kind == "f":
        return "(CFloat [" + "; ".join(C.cxq(float(v)) for v in vals) + "])"
    raise TypeError(f"column kind {kind}")


def unsupported_nodes(d, rules):
    opaque = {m["name"] for m in rules["functions"] if m["opaque"]}
    out = set()
    for n in d["order"]:
        k = d["nodes"][n]["kind"]
        if k["k"] == "rule" and (k["skipvec"] or k["pyname"] in opaque):
            out.add(n)
        if k["k"] == "pid_agg" and k.get("aggr") != "sum":
            out.add(n)
    return out


def run_u7(ctx, res, dates, n_pops, n_hh=3):
    impl.setup()
    rules = ctx.load_rules()
    rnd = ctx.rng("u7")
    stats = dict(populations=0, columns_compared=0, cells=0, supplied_unsupported=0, differences=0, model_errors=0)
    cases = []
    for o in dates:
        if o not in metam.dag_dates():
            continue
        d = metam.dag_for(o)
        year = int(impl.iso(o)[:4])
        nodes = metam.default_nodes(d)
        unsup = unsupported_nodes(d, rules) & set(nodes)
        for _ in range(n_pops):
            df = popgen.to_frame(popgen.population(rnd, year, n_hh, id_style=rnd.choice(["dense", "sparse"])))
            df = df.sample(frac=1.0, random_state=rnd.randrange(10**6)).reset_index(drop=True)
            try:
                out, _ = engine.simulate(df, o, targets=nodes)
            except Exception:  # noqa: BLE001
                continue
            data = {c: df[c] for c in df.columns if df[c].dtype.kind in "biuf"}
            for nme in unsup:
                if out[nme].dtype.kind in "biuf":
                    data[nme] = out[nme]
            stats["supplied_unsupported"] = len(unsup)
            targets = [t for t in nodes if t not in unsup]
            lit = "[" + "; ".join(f'("{k}", {coq_column(v)})' for k, v in data.items()) + "]"
            tl = "[" + "; ".join(f'"{t}"' for t in targets) + "]"
            expr = (f"match find (fun od => Z.eqb (fst od) {o}) dags, PA {o} with | Some od, Ok p => "
                    f"match run_table all_fundefs p ROUNDFLAG NROWS%nat (snd od) {tl} {lit} with "
                    f"| Ok t => json_val (VDict (map (fun nc => (KStr (fst nc), VDict [(KStr \"t\", VStr (dtype_name (col_dtype (snd nc)))); (KStr \"v\", VList (col_vals (snd nc)))])) "
                    f"(filter (fun nc => existsb (String.eqb (fst nc)) {tl}) t))) "
                    f"| Err e => match run_table_diag all_fundefs p ROUNDFLAG NROWS%nat (snd od) {tl} {lit} with Some (nm, er) => json_val (VStr (\"FAIL at \" ++ nm ++ \": \" ++ show_err er)) | None => json_res (Err e) end end | _, _ => json_res (Err EKey) end")
            expr = expr.replace("NROWS", str(len(df)))
            cases.append((o, df, out, targets, expr.replace("ROUNDFLAG", "true"), expr.replace("ROUNDFLAG", "false"), data))
    import concurrent.futures as cf

    def one(a):
        i, (o, df, out, targets, expr, _e2, _d) = a
        try:
            r, _ = M.eval_json(f"U7_{i}", PRELUDE + "Open Scope Z_scope.\n", [expr], timeout=1700, workdir=C.WORK / "u7")
            return r[0]
        except Exception as ex:  # noqa: BLE001
            return ex

    with cf.ThreadPoolExecutor(max_workers=6) as ex:
        results = list(ex.map(one, list(enumerate(cases))))
    kinds = {"int": "iu", "float": "f", "bool": "b", "date": "M"}
    def compare(out, m, targets):
        bad = []
        for t in targets:
            if t not in m:
                continue
            col = out[t].to_numpy()
            mt, mv = m[t]["t"], m[t]["v"]
            ok = col.dtype.kind in kinds.get(mt, "?") and len(mv) == len(col)
            if ok:
                for y, x in zip(col, mv):
                    if isinstance(x, tuple):
                        if not M.close(float(y), x[1]):
                            ok = False
                            break
                    elif isinstance(x, bool):
                        if bool(y) is not x:
                            ok = False
                            break
                    elif int(y) != x:
                        ok = False
                        break
            if not ok:
                bad.append(t)
        return bad

    for ci, ((o, df, out, targets, _, expr_nr, data), m) in enumerate(zip(cases, results)):
        stats["populations"] += 1
        if isinstance(m, Exception) or isinstance(m, M.ModelErr) or isinstance(m, str):
            stats["model_errors"] += 1
            res.add_violation("u7:model-error", f"the Coq engine model fails on a population the implementation simulates ({impl.iso(o)}): {str(m)[:200]}",
                              dict(kind="u7-error", date=impl.iso(o), error=str(m)[:500], rows=df.to_dict("records")), False)
            continue
        if not (isinstance(m, Exception) or isinstance(m, M.ModelErr) or isinstance(m, str)) and compare(out, m, targets):
            # float vs exact-rational tie-breaking at a statutory rounding step?  Compare both sides WITHOUT rounding.
            try:
                r2, _ = M.eval_json(f"U7nr_{ci}", PRELUDE + "Open Scope Z_scope.\n", [expr_nr], timeout=1700, workdir=C.WORK / "u7")
                frame = df.copy()
                for nme, colv in data.items():
                    if nme not in frame.columns:
                        frame[nme] = colv.to_numpy()
                out_nr, _ = engine.simulate(frame, o, targets=targets, rounding=False)
                if not isinstance(r2[0], (str, M.ModelErr)) and not compare(out_nr, r2[0], targets):
                    stats["rounding_ties"] = stats.get("rounding_ties", 0) + 1
                    stats.setdefault("rounding_tie_examples", []).append(f"{impl.iso(o)}: {compare(out, m, targets)[:3]}")
                    continue
            except Exception:  # noqa: BLE001
                pass
        for t in targets:
            if t not in m:
                continue
            stats["columns_compared"] += 1
            col = out[t].to_numpy()
            mt, mv = m[t]["t"], m[t]["v"]
            ok = col.dtype.kind in kinds.get(mt, "?") and len(mv) == len(col)
            if ok:
                for y, x in zip(col, mv):
                    stats["cells"] += 1
                    if isinstance(x, tuple):
                        if not M.close(float(y), x[1]):
                            ok = False
                            break
                    elif isinstance(x, bool):
                        if bool(y) is not x:
                            ok = False
                            break
                    elif int(y) != x:
                        ok = False
                        break
            if not ok:
                stats["differences"] += 1
                res.add_violation(f"u7:{t}", f"the Coq engine model and the implementation differ on column {t} ({impl.iso(o)}): implementation {col.dtype} {[metam._py(v) for v in col[:6]]}, "
                                  f"model {mt} {[M.show(v) for v in mv[:6]]}", dict(kind="u7", date=impl.iso(o), column=t, rows=df.to_dict("records")), False)
    res.evaluations += stats["cells"]
    res.distinct += stats["columns_compared"]
    res.extra["u7"] = stats
    return stats
