#!/venv/bin/python
"""Dump the dependency graph the REAL loader builds (load_and_check_functions) for a set of
dates into coq/gen/GenDag.v and coq/gen/dag.json.

For each date: functions of the policy environment, targets = DEFAULT_TARGETS, data columns =
TYPES_INPUT_VARIABLES.  Every node: name, kind, argument names (signature without `_params`),
parameter groups, for derived nodes what they do — determined BEHAVIOURALLY by probing the
function the loader created (aggregation kind, conversion factor), not by re-implementing
the loader's naming logic."""
from __future__ import annotations

import datetime
import inspect
import json
import sys
import warnings
from fractions import Fraction
from pathlib import Path

sys.path.insert(0, str(Path(__file__).resolve().parent))
import common as C  # noqa: E402
from translate import clist, cstr, cz  # noqa: E402

GEN = C.GEN


def probe_group_agg(f, args):
    import numpy as np

    if len(args) == 1:
        try:
            r = f(np.array([0, 0, 1]))
            if [float(x) for x in r] == [2.0, 2.0, 1.0]:
                return "count"
        except Exception:  # noqa: BLE001
            pass
        return "unknown"
    g = np.array([0, 0, 1])
    try:
        r = [float(x) for x in f(np.array([1.0, 2.0, 4.0]), g)]
        return {(3.0, 3.0, 4.0): "sum", (1.5, 1.5, 4.0): "mean", (2.0, 2.0, 4.0): "max", (1.0, 1.0, 4.0): "min"}.get(tuple(r), "unknown")
    except TypeError:
        pass
    except Exception:  # noqa: BLE001
        return "unknown"
    try:
        r = [bool(x) for x in f(np.array([True, False, False]), g)]
        return {(True, True, False): "any", (False, False, False): "all"}.get(tuple(r), "unknown")
    except Exception:  # noqa: BLE001
        return "unknown"


def probe_pid_agg(f, args):
    import numpy as np

    try:
        # args order as in the signature: (column, p_id_to_aggregate_by, p_id_to_store_by)
        r = f(np.array([1.0, 2.0, 4.0]), np.array([11, -1, 11]), np.array([10, 11, 12]))
        if [float(x) for x in r] == [0.0, 5.0, 0.0]:
            return "sum"
    except NotImplementedError:
        return "not_implemented"
    except Exception:  # noqa: BLE001
        pass
    return "unknown"


def probe_timeconv(f):
    try:
        return Fraction(repr(float(f(1.0))))
    except Exception:  # noqa: BLE001
        return None


KNOWN_FACTORS = {}
for a, fa in {"y": Fraction(1), "m": Fraction(12), "w": Fraction(36525, 700), "d": Fraction(36525, 100)}.items():
    for b, fb in {"y": Fraction(1), "m": Fraction(12), "w": Fraction(36525, 700), "d": Fraction(36525, 100)}.items():
        if a != b:
            KNOWN_FACTORS[(a, b)] = fa / fb       # x_b = x_a * (periods_a / periods_b)


def dump_date(o: int, cfg):
    import numpy as np  # noqa: F401

    from _gettsim.functions_loader import (_create_derived_functions, _load_functions, _vectorize_func)
    from _gettsim.groupings import create_groupings
    from _gettsim.policy_environment import load_functions_for_date
    from _gettsim.shared import get_names_of_arguments_without_defaults

    date = datetime.date.fromordinal(o)
    funcs = load_functions_for_date(date)
    data_cols = list(cfg["TYPES_INPUT_VARIABLES"])
    targets = [t for t in cfg["DEFAULT_TARGETS"]]
    functions = _load_functions(funcs)
    vect = {fn: _vectorize_func(f) for fn, f in functions.items()}
    try:
        tc, agg_g, agg_p = _create_derived_functions(vect, targets, data_cols, {}, {})
    except Exception as ex:  # noqa: BLE001
        return dict(date=o, error=f"{type(ex).__name__}: {ex}"[:300])
    groupings = create_groupings()
    allf = {**agg_p, **tc, **vect, **agg_g, **groupings}
    nodes = {}
    for name, f in allf.items():
        args_all = list(get_names_of_arguments_without_defaults(f))
        args = [a for a in args_all if not a.endswith("_params")]
        pgroups = [a[:-7] for a in args_all if a.endswith("_params")]
        if name in groupings:
            kind = dict(k="grouping")
        elif name in agg_g:
            kind = dict(k="group_agg", aggr=probe_group_agg(f, args))
        elif name in vect:
            raw = functions[name]
            info = getattr(raw, "__info__", {}) or {}
            kind = dict(k="rule", pyname=getattr(raw, "__name__", name), module=getattr(raw, "__module__", ""),
                        skipvec=bool(info.get("skip_vectorization", False)),
                        round=info.get("params_key_for_rounding"))
        elif name in tc:
            fac = probe_timeconv(f)
            kind = dict(k="timeconv", factor=None if fac is None else [fac.numerator, fac.denominator])
        else:
            kind = dict(k="pid_agg", aggr=probe_pid_agg(f, args))
        has_rounding = bool(getattr(f, "__info__", {}) and "params_key_for_rounding" in getattr(f, "__info__", {}))
        ann = {}
        try:
            ann = {k: getattr(v, "__name__", str(v)) for k, v in getattr(f, "__annotations__", {}).items()}
        except Exception:  # noqa: BLE001
            pass
        nodes[name] = dict(name=name, args=args, params=pgroups, kind=kind, overridden=name in data_cols,
                           derived_has_rounding_info=has_rounding and kind["k"] != "rule", annotations=ann)
    # exact factor for time conversions whose probe is a known constant
    for n in nodes.values():
        if n["kind"]["k"] == "timeconv" and n["kind"]["factor"]:
            fr = Fraction(*n["kind"]["factor"])
            for (a, b), kf in KNOWN_FACTORS.items():
                if abs(fr - kf) <= Fraction(1, 10**12) * abs(kf):
                    n["kind"]["factor"] = [kf.numerator, kf.denominator]
                    n["kind"]["units"] = [a, b]
                    break
    # topological order of the nodes that are not overridden (Kahn, stable by name)
    live = {k: v for k, v in nodes.items() if not v["overridden"]}
    indeg = {k: 0 for k in live}
    users = {k: [] for k in live}
    for k, v in live.items():
        for a in v["args"]:
            if a in live:
                indeg[k] += 1
                users[a].append(k)
    ready = sorted(k for k, d in indeg.items() if d == 0)
    order = []
    while ready:
        k = ready.pop(0)
        order.append(k)
        for u in sorted(users[k]):
            indeg[u] -= 1
            if indeg[u] == 0:
                ready.append(u)
    cyclic = sorted(set(live) - set(order))
    return dict(date=o, iso=date.isoformat(), order=order, cyclic=cyclic, nodes=nodes, data_cols=data_cols, targets=targets)


def coq_node(n):
    k = n["kind"]
    if k["k"] == "rule":
        kind = f"(KRule {cstr(k['pyname'])} {'true' if k['skipvec'] else 'false'} {'(Some ' + cstr(k['round']) + ')' if k.get('round') else 'None'})"
    elif k["k"] == "group_agg":
        kind = f"(KGroupAgg {cstr(k['aggr'])})"
    elif k["k"] == "pid_agg":
        kind = f"(KPidAgg {cstr(k['aggr'])})"
    elif k["k"] == "timeconv":
        fac = k.get("factor") or [0, 1]
        kind = f"(KTimeConv ({fac[0]})%Z {fac[1]}%positive)"
    else:
        kind = "KGrouping"
    return (f"{{| d_name := {cstr(n['name'])}; d_args := {clist([cstr(a) for a in n['args']])}; "
            f"d_params := {clist([cstr(a) for a in n['params']])}; d_kind := {kind} |}}")


def choose_dates(rules):
    cls = rules["config"]["date_classes"]
    lo = datetime.date(2015, 1, 1).toordinal()
    ds = [c for c in cls if c >= lo]
    extra = [datetime.date(*t).toordinal() for t in [(2010, 1, 1), (2005, 6, 1), (2001, 3, 1), (1995, 1, 1), (2012, 7, 1), (2008, 1, 1)]]
    return sorted(set(ds + extra))


def main():
    warnings.filterwarnings("ignore")
    sys.path.insert(0, str(C.REPO / "src"))
    rules = json.loads((GEN / "rules.json").read_text(encoding="utf-8"))
    cfg = rules["config"]
    import multiprocessing as mp

    dates = choose_dates(rules)
    with mp.Pool(12) as pool:
        dumps = pool.starmap(dump_date, [(o, cfg) for o in dates])
    head = [
        "(* GENERATED by tools/dagdump.py from the real loader — do not edit *)",
        "From Coq Require Import ZArith Bool String List.",
        "From GettsimModel Require Import Dag.",
        "Import ListNotations.",
        "Open Scope string_scope.",
        "",
    ]
    for old in GEN.glob("GenDag_*.v"):
        old.unlink()
    names = []
    for d in dumps:
        if "error" in d:
            continue
        nm = f"dag_{d['date']}"
        items = [coq_node(d["nodes"][k]) for k in d["order"]]
        body = head + [f"(* {d['iso']}: {len(items)} nodes *)",
                       f"Definition {nm} : list dnode :=\n  [" + ";\n   ".join(items) + "]."]
        (GEN / f"GenDag_{d['date']}.v").write_text("\n".join(body) + "\n", encoding="utf-8")
        names.append((d["date"], nm))
    lines = list(head)
    lines.append("From GettsimGen Require Import " + " ".join(f"GenDag_{o}" for o, _ in names) + ".")
    lines.append("Definition dags : list (Z * list dnode) :=")
    lines.append("  " + clist([f"({cz(o)}, {nm})" for o, nm in names]) + ".")
    lines.append(f"Definition dag_data_cols : list string := {clist([cstr(c) for c in cfg['TYPES_INPUT_VARIABLES']])}.")
    (GEN / "GenDag.v").write_text("\n".join(lines) + "\n", encoding="utf-8")
    (GEN / "dag.json").write_text(json.dumps({str(d["date"]): d for d in dumps}, ensure_ascii=False), encoding="utf-8")
    ok = [d for d in dumps if "error" not in d]
    print(f"dag dump: {len(ok)}/{len(dumps)} dates; nodes per date {min(len(d['order']) for d in ok)}..{max(len(d['order']) for d in ok)}; "
          f"cyclic: {sum(len(d['cyclic']) for d in ok)}")
    for d in dumps:
        if "error" in d:
            print("  DAG ERROR", datetime.date.fromordinal(d["date"]).isoformat(), d["error"])


if __name__ == "__main__":
    main()
