#!/venv/bin/python
"""Dump the dependency graph the REAL loader builds (load_and_check_functions) for a set of
dates into coq/gen/GenDag.v and coq/gen/dag.json.

For each date: functions of the policy environment, targets = DEFAULT_TARGETS, data columns =
TYPES_INPUT_VARIABLES.  Every node: name, kind, argument names (signature without `_params`),
parameter groups, for derived nodes what they do — determined BEHAVIOURALLY by probing the
function the loader created (aggregation kind, conversion factor), not by re-implementing
the loader's naming logic."""
from __future__ import annotations

import datetime
import inspect
import json
import sys
import warnings
from fractions import Fraction
from pathlib import Path

sys.path.insert(0, str(Path(__file__).resolve().parent))
import common as C  # noqa: E402
from translate import clist, cstr, cz  # noqa: E402

GEN = C.GEN


def probe_group_agg(f, args):
    import numpy as np

    if len(args) == 1:
        try:
            r = f(np.array([0, 0, 1]))
            if [float(x) for x in r] == [2.0, 2.0, 1.0]:
                return "count"
        except Exception:  # noqa: BLE001
            pass
        return "unknown"
    g = np.array([0, 0, 1])
    try:
        r = [float(x) for x in f(np.array([1.0, 2.0, 4.0]), g)]
        return {(3.0, 3.0, 4.0): "sum", (1.5, 1.5, 4.0): "mean", (2.0, 2.0, 4.0): "max", (1.0, 1.0, 4.0): "min"}.get(tuple(r), "unknown")
    except TypeError:
        pass
    except Exception:  # noqa: BLE001
        return "unknown"
    try:
        r = [bool(x) for x in f(np.array([True, False, False]), g)]
        return {(True, True, False): "any", (False, False, False): "all"}.get(tuple(r), "unknown")
    except Exception:  # noqa: BLE001
        return "unknown"


def probe_pid_agg(f, args):
    import numpy as np

    try:
        # args order as in the signature: (column, p_id_to_aggregate_by, p_id_to_store_by)
        r = f(np.array([1.0, 2.0, 4.0]), np.array([11, -1, 11]), np.array([10, 11, 12]))
        if [float(x) for x in r] == [0.0, 5.0, 0.0]:
            return "sum"
    except NotImplementedError:
        return "not_implemented"
    except Exception:  # noqa: BLE001
        pass
    return "unknown"


def probe_timeconv(f):
    try:
        return Fraction(repr(float(f(1.0))))
    except Exception:  # noqa: BLE001
        return None


def _ref_join(fk, pk, tgt, dflt):
    """independent reference of shared.join_numpy (valid keys: pk unique, every fk >= 0 present)"""
    import numpy as np
    pos = {int(k): i for i, k in enumerate(pk)}
    out = [tgt[pos[int(k)]] if int(k) in pos else dflt for k in fk]
    return np.array(out, dtype=np.asarray(tgt).dtype)


def probe_join_form(raw, args):
    """skip_vectorization rules of the shape  join_numpy(fk, pk, tgt, value_if_foreign_key_is_missing=K)
    optionally compared (== / !=) with another argument: recognised syntactically in the source of
    the rule and then VALIDATED behaviourally against an independent reference on random arrays.
    Returns a kind dict or None."""
    import ast
    import inspect
    import random
    import textwrap

    import numpy as np
    try:
        tree = ast.parse(textwrap.dedent(inspect.getsource(raw)))
    except Exception:  # noqa: BLE001
        return None
    fn = next((n for n in ast.walk(tree) if isinstance(n, ast.FunctionDef)), None)
    if fn is None:
        return None
    body = [st for st in fn.body if not (isinstance(st, ast.Expr) and isinstance(getattr(st, "value", None), ast.Constant))]

    def as_join(call):
        if not (isinstance(call, ast.Call) and isinstance(call.func, ast.Name) and call.func.id in ("join_numpy", "join")):
            return None
        names = ["foreign_key", "primary_key", "target", "value_if_foreign_key_is_missing"]
        got = dict(zip(names, call.args))
        for kw in call.keywords:
            got[kw.arg] = kw.value
        if set(got) != set(names):
            return None
        a = [got[n] for n in names[:3]]
        if not all(isinstance(x, ast.Name) and x.id in args for x in a) or not isinstance(got[names[3]], (ast.Constant, ast.UnaryOp)):
            return None
        try:
            dflt = ast.literal_eval(got[names[3]])
        except Exception:  # noqa: BLE001
            return None
        return [x.id for x in a] + [dflt]

    form = None
    if len(body) == 1 and isinstance(body[0], ast.Return):
        j = as_join(body[0].value)
        if j:
            form = dict(k="join", fk=j[0], pk=j[1], tgt=j[2], dflt=j[3], cmp=None)
    elif (len(body) == 2 and isinstance(body[0], ast.Assign) and len(body[0].targets) == 1 and isinstance(body[0].targets[0], ast.Name)
          and isinstance(body[1], ast.Return) and isinstance(body[1].value, ast.Compare) and len(body[1].value.ops) == 1):
        j = as_join(body[0].value)
        x = body[0].targets[0].id
        c = body[1].value
        sides = [c.left, c.comparators[0]]
        if j and all(isinstance(sd, ast.Name) for sd in sides) and isinstance(c.ops[0], (ast.Eq, ast.NotEq)):
            ids = [sd.id for sd in sides]
            if x in ids:
                other = ids[1 - ids.index(x)]
                if other in args:
                    form = dict(k="join", fk=j[0], pk=j[1], tgt=j[2], dflt=j[3], cmp=["ne" if isinstance(c.ops[0], ast.NotEq) else "eq", other])
    def validate(form):
        return _validate_join_form(raw, args, form)

    if form is None:
        # no syntactic match: behavioural classification among  tgt ==/!= join(fk, pk, tgt, -1)
        import itertools
        if len(args) == 3:
            for fk, pk, tgt in itertools.permutations(args):
                for op in ("ne", "eq"):
                    cand = dict(k="join", fk=fk, pk=pk, tgt=tgt, dflt=-1, cmp=[op, tgt])
                    if validate(cand):
                        return cand
        return None
    return form if validate(form) else None


def _validate_join_form(raw, args, form):
    import random

    import numpy as np
    rnd = random.Random(7)
    for trial in range(12):
        n = rnd.randrange(1, 9)
        pk = rnd.sample(range(0, 40), n)
        fk = [rnd.choice(pk + [-1]) for _ in range(n)]
        cols = {}
        for a in args:
            if a == form["pk"]:
                cols[a] = np.array(pk, dtype=np.int64)
            elif a == form["fk"]:
                cols[a] = np.array(fk, dtype=np.int64)
            elif isinstance(form["dflt"], bool):
                cols[a] = np.array([rnd.random() < 0.5 for _ in range(n)], dtype=bool)
            elif isinstance(form["dflt"], float):
                cols[a] = np.array([round(rnd.uniform(0, 500), 2) for _ in range(n)], dtype=np.float64)
            else:
                cols[a] = np.array([rnd.randrange(0, 6) for _ in range(n)], dtype=np.int64)
        try:
            got = np.asarray(raw(**{a: cols[a] for a in args}))
        except Exception:  # noqa: BLE001
            return False
        ref = _ref_join(cols[form["fk"]], cols[form["pk"]], cols[form["tgt"]], form["dflt"])
        if form["cmp"]:
            ref = (ref == cols[form["cmp"][1]])
            if form["cmp"][0] == "ne":
                ref = ~ref
        if got.dtype != ref.dtype or got.shape != ref.shape or not np.array_equal(got, ref):
            return False
    return True


KNOWN_FACTORS = {}
for a, fa in {"y": Fraction(1), "m": Fraction(12), "w": Fraction(36525, 700), "d": Fraction(36525, 100)}.items():
    for b, fb in {"y": Fraction(1), "m": Fraction(12), "w": Fraction(36525, 700), "d": Fraction(36525, 100)}.items():
        if a != b:
            KNOWN_FACTORS[(a, b)] = fa / fb       # x_b = x_a * (periods_a / periods_b)


def dump_date(o: int, cfg):
    import numpy as np  # noqa: F401

    from _gettsim.functions_loader import (_create_derived_functions, _load_functions, _vectorize_func)
    from _gettsim.groupings import create_groupings
    from _gettsim.policy_environment import load_functions_for_date
    from _gettsim.shared import get_names_of_arguments_without_defaults

    date = datetime.date.fromordinal(o)
    funcs = load_functions_for_date(date)
    data_cols = list(cfg["TYPES_INPUT_VARIABLES"])
    targets = [t for t in cfg["DEFAULT_TARGETS"]]
    functions = _load_functions(funcs)
    vect = {fn: _vectorize_func(f) for fn, f in functions.items()}
    try:
        tc, agg_g, agg_p = _create_derived_functions(vect, targets, data_cols, {}, {})
    except Exception as ex:  # noqa: BLE001
        return dict(date=o, error=f"{type(ex).__name__}: {ex}"[:300])
    groupings = create_groupings()
    allf = {**agg_p, **tc, **vect, **agg_g, **groupings}
    nodes = {}
    for name, f in allf.items():
        args_all = list(get_names_of_arguments_without_defaults(f))
        args = [a for a in args_all if not a.endswith("_params")]
        pgroups = [a[:-7] for a in args_all if a.endswith("_params")]
        if name in groupings:
            kind = dict(k="grouping")
        elif name in agg_g:
            kind = dict(k="group_agg", aggr=probe_group_agg(f, args))
        elif name in vect:
            raw = functions[name]
            info = getattr(raw, "__info__", {}) or {}
            kind = dict(k="rule", pyname=getattr(raw, "__name__", name), module=getattr(raw, "__module__", ""),
                        skipvec=bool(info.get("skip_vectorization", False)),
                        round=info.get("params_key_for_rounding"))
            if kind["skipvec"] and not kind["round"] and not pgroups:
                jf = probe_join_form(raw, args)
                if jf:
                    jf.update(pyname=kind["pyname"], module=kind["module"])
                    kind = jf
        elif name in tc:
            fac = probe_timeconv(f)
            kind = dict(k="timeconv", factor=None if fac is None else [fac.numerator, fac.denominator])
        else:
            kind = dict(k="pid_agg", aggr=probe_pid_agg(f, args))
        has_rounding = bool(getattr(f, "__info__", {}) and "params_key_for_rounding" in getattr(f, "__info__", {}))
        ann = {}
        try:
            ann = {k: getattr(v, "__name__", str(v)) for k, v in getattr(f, "__annotations__", {}).items()}
        except Exception:  # noqa: BLE001
            pass
        nodes[name] = dict(name=name, args=args, params=pgroups, kind=kind, overridden=name in data_cols,
                           derived_has_rounding_info=has_rounding and kind["k"] != "rule", annotations=ann)
    # exact factor for time conversions whose probe is a known constant
    for n in nodes.values():
        if n["kind"]["k"] == "timeconv" and n["kind"]["factor"]:
            fr = Fraction(*n["kind"]["factor"])
            for (a, b), kf in KNOWN_FACTORS.items():
                if abs(fr - kf) <= Fraction(1, 10**12) * abs(kf):
                    n["kind"]["factor"] = [kf.numerator, kf.denominator]
                    n["kind"]["units"] = [a, b]
                    break
    # topological order of the nodes that are not overridden (Kahn, stable by name)
    live = {k: v for k, v in nodes.items() if not v["overridden"]}
    indeg = {k: 0 for k in live}
    users = {k: [] for k in live}
    for k, v in live.items():
        for a in v["args"]:
            if a in live:
                indeg[k] += 1
                users[a].append(k)
    ready = sorted(k for k, d in indeg.items() if d == 0)
    order = []
    while ready:
        k = ready.pop(0)
        order.append(k)
        for u in sorted(users[k]):
            indeg[u] -= 1
            if indeg[u] == 0:
                ready.append(u)
    cyclic = sorted(set(live) - set(order))
    return dict(date=o, iso=date.isoformat(), order=order, cyclic=cyclic, nodes=nodes, data_cols=data_cols, targets=targets)


def coq_node(n):
    k = n["kind"]
    if k["k"] == "rule":
        kind = f"(KRule {cstr(k['pyname'])} {'true' if k['skipvec'] else 'false'} {'(Some ' + cstr(k['round']) + ')' if k.get('round') else 'None'})"
    elif k["k"] == "group_agg":
        kind = f"(KGroupAgg {cstr(k['aggr'])})"
    elif k["k"] == "pid_agg":
        kind = f"(KPidAgg {cstr(k['aggr'])})"
    elif k["k"] == "timeconv":
        fac = k.get("factor") or [0, 1]
        kind = f"(KTimeConv ({fac[0]})%Z {fac[1]}%positive)"
    elif k["k"] == "join":
        d = k["dflt"]
        dv = ("(VBool " + ("true" if d else "false") + ")") if isinstance(d, bool) else \
             (f"(VFloat (XFin (qfrac ({Fraction(repr(d)).numerator}) {Fraction(repr(d)).denominator})))" if isinstance(d, float) else f"(VInt ({int(d)}))")
        cmp = "None" if not k["cmp"] else f"(Some ({'true' if k['cmp'][0] == 'ne' else 'false'}, {cstr(k['cmp'][1])}))"
        kind = f"(KJoin {cstr(k['fk'])} {cstr(k['pk'])} {cstr(k['tgt'])} {dv} {cmp})"
    else:
        kind = "KGrouping"
    return (f"{{| d_name := {cstr(n['name'])}; d_args := {clist([cstr(a) for a in n['args']])}; "
            f"d_params := {clist([cstr(a) for a in n['params']])}; d_kind := {kind} |}}")


def choose_dates(rules):
    cls = rules["config"]["date_classes"]
    lo = datetime.date(2015, 1, 1).toordinal()
    ds = [c for c in cls if c >= lo]
    extra = [datetime.date(*t).toordinal() for t in [(2010, 1, 1), (2005, 6, 1), (2001, 3, 1), (1995, 1, 1), (2012, 7, 1), (2008, 1, 1)]]
    return sorted(set(ds + extra))


def main():
    warnings.filterwarnings("ignore")
    sys.path.insert(0, str(C.REPO / "src"))
    rules = json.loads((GEN / "rules.json").read_text(encoding="utf-8"))
    cfg = rules["config"]
    import multiprocessing as mp

    dates = choose_dates(rules)
    with mp.Pool(12) as pool:
        dumps = pool.starmap(dump_date, [(o, cfg) for o in dates])
    head = [
        "(* GENERATED by tools/dagdump.py from the real loader — do not edit *)",
        "From Coq Require Import ZArith Bool String List.",
        "From GettsimModel Require Import Num Val Dag.",
        "Import ListNotations.",
        "Open Scope string_scope.",
        "",
    ]
    for old in GEN.glob("GenDag_*.v"):
        old.unlink()
    names = []
    for d in dumps:
        if "error" in d:
            continue
        nm = f"dag_{d['date']}"
        items = [coq_node(d["nodes"][k]) for k in d["order"]]
        body = head + [f"(* {d['iso']}: {len(items)} nodes *)",
                       f"Definition {nm} : list dnode :=\n  [" + ";\n   ".join(items) + "]."]
        (GEN / f"GenDag_{d['date']}.v").write_text("\n".join(body) + "\n", encoding="utf-8")
        names.append((d["date"], nm))
    lines = list(head)
    lines.append("From GettsimGen Require Import " + " ".join(f"GenDag_{o}" for o, _ in names) + ".")
    lines.append("Definition dags : list (Z * list dnode) :=")
    lines.append("  " + clist([f"({cz(o)}, {nm})" for o, nm in names]) + ".")
    lines.append(f"Definition dag_data_cols : list string := {clist([cstr(c) for c in cfg['TYPES_INPUT_VARIABLES']])}.")
    (GEN / "GenDag.v").write_text("\n".join(lines) + "\n", encoding="utf-8")
    (GEN / "dag.json").write_text(json.dumps({str(d["date"]): d for d in dumps}, ensure_ascii=False), encoding="utf-8")
    ok = [d for d in dumps if "error" not in d]
    print(f"dag dump: {len(ok)}/{len(dumps)} dates; nodes per date {min(len(d['order']) for d in ok)}..{max(len(d['order']) for d in ok)}; "
          f"cyclic: {sum(len(d['cyclic']) for d in ok)}")
    for d in dumps:
        if "error" in d:
            print("  DAG ERROR", datetime.date.fromordinal(d["date"]).isoformat(), d["error"])


if __name__ == "__main__":
    main()
