"""Helpers for metamorphic runs of the real engine driven by the regenerated dependency graph."""
from __future__ import annotations

import functools
import json

import common as C
import impl


@functools.lru_cache(maxsize=1)
def dags():
    return json.loads((C.GEN / "dag.json").read_text(encoding="utf-8"))


def dag_dates():
    return sorted(int(k) for k, v in dags().items() if "error" not in v)


def dag_for(o):
    return dags()[str(int(o))]


def ancestors(d, targets):
    seen = set()
    stack = [t for t in targets]
    while stack:
        x = stack.pop()
        if x in seen:
            continue
        seen.add(x)
        n = d["nodes"].get(x)
        if n is not None and not n["overridden"]:
            stack.extend(n["args"])
    return seen


def default_nodes(d):
    """live nodes of the dependency graph of the default targets, in topological order"""
    anc = ancestors(d, d["targets"])
    return [n for n in d["order"] if n in anc]


def descendants(d, changed):
    out = set(changed)
    for n in d["order"]:
        if n in out:
            continue
        if any(a in out for a in d["nodes"][n]["args"]):
            out.add(n)
    return out


def users_of_group(d, g):
    return {n for n in d["order"] if g in d["nodes"][n]["params"] or d["nodes"][n]["kind"].get("round") == g}


def col_equal(a, b):
    """bit-identical comparison of two result columns (NaN equals NaN, dtype must agree)"""
    import numpy as np

    a = np.asarray(a)
    b = np.asarray(b)
    if a.dtype != b.dtype or a.shape != b.shape:
        return False
    if np.issubdtype(a.dtype, np.floating):
        return bool(np.array_equal(a, b, equal_nan=True))
    return bool(np.array_equal(a, b))


def col_close(a, b, tol=1e-9):
    import numpy as np

    a = np.asarray(a)
    b = np.asarray(b)
    if a.shape != b.shape:
        return False
    if np.issubdtype(a.dtype, np.floating) or np.issubdtype(b.dtype, np.floating):
        a = a.astype(float)
        b = b.astype(float)
        return bool(np.all((np.isnan(a) & np.isnan(b)) | (np.abs(a - b) <= tol * np.maximum(1.0, np.abs(b))) | (a == b)))
    return bool(np.array_equal(a, b))


def same_partition(a, b):
    m1, m2 = {}, {}
    for x, y in zip(list(a), list(b)):
        if m1.setdefault(x, y) != y or m2.setdefault(y, x) != x:
            return False
    return True


def is_id(name):
    return name.endswith("_id") or name.startswith("p_id")


def first_diff(a, b, keys):
    import numpy as np

    a = np.asarray(a)
    b = np.asarray(b)
    for i in range(min(len(a), len(b))):
        x, y = a[i], b[i]
        if not (x == y or (x != x and y != y)):
            return dict(row=i, key=(keys[i] if keys is not None else None), a=_py(x), b=_py(y))
    return dict(row=None, a=str(a.dtype), b=str(b.dtype))


def _py(v):
    try:
        return v.item()
    except Exception:  # noqa: BLE001
        return v
