#!/venv/bin/python
"""check driver:  check <ID> [--tier quick|thorough] [--replay FILE]

1 sync+build (translator -> coq/gen, make)      2 hand-written theorems of props/<ID>.v
3 regenerated obligations (reflective checkers)  4 correspondence model <-> implementation
5 violation protocol (search for a failing input, replay file, known findings)
6 evidence file.   Exit 0 = held on everything explored, 1 = VIOLATION, 2 = machinery error."""
from __future__ import annotations

import argparse
import importlib
import json
import os
import sys
import time
import traceback
from pathlib import Path

sys.path.insert(0, str(Path(__file__).resolve().parent))
import build  # noqa: E402
import common as C  # noqa: E402
import coqrun  # noqa: E402

TRUSTED_BASE = [
    "Coq 8.16.1 kernel (coqc, full .vo build; vm_compute used for reflective obligations and for "
    "evaluating the model in the correspondence check; native_compute not used)",
    "no Axiom/Parameter/Admitted declared in /verif/coq; Print Assumptions of every property theorem and "
    "generated obligation is recorded below (expected: Closed under the global context)",
    "translator tools/translate.py (Python ast / yaml.CLoader -> Coq text, fail-closed per function), "
    "validated on every run of C03/C08/C16 by rule-level correspondence U1",
    "correspondence harness (Python; float tolerance 1e-9 relative; generators seeded by VERIF_SEED)",
    "floats modelled as exact extended rationals (no rounding error, overflow, -0.0, denormals)",
    "third-party behaviour re-implemented in Gallina and validated only differentially: numpy.vectorize "
    "dtype inference, numpy casts/round/searchsorted, numpy_groupies.aggregate, dags topological evaluation, "
    "yaml.CLoader, datetime.date",
]


class Ctx:
    def __init__(self, pid, tier):
        self.pid = pid
        self.tier = tier
        self.rules = None
        self.t0 = time.time()

    def load_rules(self):
        if self.rules is None:
            self.rules = json.loads((C.GEN / "rules.json").read_text(encoding="utf-8"))
        return self.rules

    def rng(self, tag=""):
        return C.rng(f"{self.pid}:{tag}")


class Result:
    """what a property module returns"""

    def __init__(self):
        self.obligations = []      # dicts from coqrun.prove (+ hand-written theorems)
        self.violations = []       # dict(key, what, payload, found_input: bool)
        self.evaluations = 0
        self.distinct = 0
        self.rule = ""
        self.samples = []
        self.extra = {}
        self.assumptions = []
        self.exhaustive = None
        self.machinery_errors = []

    def add_violation(self, key, what, payload, found_input):
        if any(v["key"] == key for v in self.violations):
            return
        self.violations.append(dict(key=key, what=what, payload=payload, found_input=found_input))


def known_match(pid, v, findings):
    for f in findings:
        if f.get("property") == pid and (f.get("key") == v["key"] or v["key"] in f.get("keys", [])):
            return f
    return None


def main():
    ap = argparse.ArgumentParser()
    ap.add_argument("pid")
    ap.add_argument("--tier", default=os.environ.get("VERIF_TIER", "quick"))
    ap.add_argument("--replay")
    a = ap.parse_args()
    pid = a.pid.upper()
    tier = a.tier if a.tier in ("quick", "thorough") else "quick"
    mod = importlib.import_module(f"props.{pid.lower()}")
    if a.replay:
        payload = json.loads(Path(a.replay).read_text(encoding="utf-8"))
        sys.exit(mod.replay(payload))
    t0 = time.time()
    ctx = Ctx(pid, tier)
    res = Result()
    b = build.ensure_built()
    ctx.build = b
    try:
        if not b["ok"]:
            # the regenerated model no longer builds: a proof obligation is broken.
            res.obligations.append(dict(name=f"build_{b.get('stage')}", what="regenerated model builds",
                                        ok=False, axioms=[], err=b.get("log", "")[-3000:]))
            if hasattr(mod, "search"):
                mod.search(ctx, res, reason="build")
            if not res.violations:
                res.add_violation(f"build:{b.get('stage')}", f"sync/build failed at stage {b.get('stage')}",
                                  dict(stage=b.get("stage"), log=b.get("log", "")[-3000:]), False)
        else:
            hw = coqrun.props_assumptions(pid)
            if hw is not None:
                for i, th in enumerate(hw["theorems"]):
                    ax = hw["axioms"][i] if i < len(hw["axioms"]) else ["<unparsed>"]
                    res.obligations.append(dict(name=f"props/{pid}.v:{th}", what="hand-written theorem",
                                                ok=hw["ok"], axioms=ax, err=hw["err"]))
                if not hw["ok"]:
                    res.machinery_errors.append(f"props/{pid}.v does not compile: {hw['err']}")
            mod.run(ctx, res)
    except Exception:  # noqa: BLE001
        res.machinery_errors.append(traceback.format_exc()[-4000:])

    findings = C.load_known_findings()
    new_v = []
    for v in res.violations:
        kf = known_match(pid, v, findings)
        if kf is not None:
            print(f"KNOWN-FINDING: property={pid} {kf.get('what', v['what'])}")
        else:
            new_v.append(v)
    # a listed finding that no longer reproduces is worth a note (not an alarm)
    seen = {v["key"] for v in res.violations}
    for f in findings:
        if f.get("property") == pid and f.get("key") not in seen and not (set(f.get("keys", [])) & seen) and f.get("expect_every_run", True) and tier in f.get("tiers", ["quick", "thorough"]):
            print(f"NOTE: known finding not reproduced on this run: {f.get('key')}")

    n_obl = len(res.obligations)
    n_ok = sum(1 for o in res.obligations if o["ok"])
    axioms = sorted({a for o in res.obligations for a in o.get("axioms", [])})
    coverage = dict(
        obligations=max(n_obl, 0), discharged=n_ok,
        checker_cmd=f"/verif/check {pid} --tier {tier}  (coqc 8.16.1 on coq/props/{pid}.v and the regenerated work/obl/{pid}_*.v)",
        trusted_base=TRUSTED_BASE + [f"axioms reported by Print Assumptions on this run: {axioms or 'none (all closed under the global context)'}"],
        evaluations=int(res.evaluations), distinct_nontrivial=int(res.distinct), rule=res.rule,
        samples=res.samples[:8] or [dict(note="no correspondence cases in this tier")],
        obligation_list=[dict(name=o["name"], what=o.get("what", ""), ok=o["ok"], axioms=o.get("axioms", [])) for o in res.obligations][:400],
        translator=dict(hash=b.get("hash"), regenerated=b.get("regenerated"), summary=(b.get("translator") or "").splitlines()[:12]),
        known_findings_reported=[v["key"] for v in res.violations if known_match(pid, v, findings)],
        machinery_errors=res.machinery_errors,
    )
    if res.exhaustive is not None:
        coverage["exhaustive"] = bool(res.exhaustive)
    coverage.update(res.extra)
    C.write_evidence(pid, tier, "proof", coverage, time.time() - t0, assumptions=res.assumptions,
                     violations=len(new_v))
    rc = 0
    for i, v in enumerate(new_v):
        p = C.write_replay(pid, f"{i}", dict(property=pid, key=v["key"], what=v["what"],
                                             found_input=v["found_input"], **{"payload": v["payload"]}))
        tail = "" if v["found_input"] else " no-failing-input-found"
        print(f"VIOLATION property={pid} replay={p}{tail}")
        print(f"  {v['what']}")
        rc = 1
    if res.machinery_errors and rc == 0:
        for m in res.machinery_errors:
            print("MACHINERY-ERROR:", m, file=sys.stderr)
        rc = 2
    print(f"{pid} {tier}: obligations {n_ok}/{n_obl}, evaluations {res.evaluations}, "
          f"violations {len(new_v)}, known {len(res.violations) - len(new_v)}, {time.time() - t0:.0f}s")
    sys.exit(rc)


if __name__ == "__main__":
    main()
