#!/venv/bin/python
"""U1 — rule-level correspondence: every translated rule is executed as a Python
scalar function and as its Coq translation (GenRules.v, interpreter Eval.v) on the
same inputs, with the parameters of several policy dates. Compared: value (floats by
the tolerance rule), Python result type, exception class.

This validates the translator and the interpreter; it is run once per source hash and
cached in work/u1_<hash>.json (all property checks that rely on GenRules read it).
"""
from __future__ import annotations

import datetime
import json
import math
import sys
import time
import warnings
from pathlib import Path

sys.path.insert(0, str(Path(__file__).resolve().parent))
import common as C  # noqa: E402


def numeric_leaves(obj, acc):
    import numpy as np

    if isinstance(obj, dict):
        for k, v in obj.items():
            if k == "rounding":
                continue
            numeric_leaves(v, acc)
    elif isinstance(obj, (list, tuple)):
        for v in obj:
            numeric_leaves(v, acc)
    elif isinstance(obj, np.ndarray):
        for v in obj.ravel().tolist():
            numeric_leaves(v, acc)
    elif isinstance(obj, bool):
        pass
    elif isinstance(obj, (int, float)):
        if math.isfinite(obj):
            acc.append(obj)


INT_RANGES = [
    ("alter", [0, 1, 5, 6, 11, 14, 17, 18, 20, 24, 25, 26, 30, 45, 54, 55, 58, 62, 63, 64, 65, 66, 67, 70, 85]),
    ("geburtsjahr", [1935, 1945, 1946, 1947, 1951, 1952, 1958, 1963, 1964, 1970, 1985, 2000, 2010, 2018, 2022]),
    ("jahr_renteneintr", [1995, 2005, 2011, 2012, 2017, 2020, 2024, 2030]),
    ("jahr", [1995, 2005, 2012, 2020, 2024]),
    ("monat", [1, 2, 6, 7, 11, 12]),
    ("geburtstag", [1, 2, 15, 28]),
    ("mietstufe", [1, 2, 3, 4, 5, 6, 7]),
    ("steuerklasse", [1, 2, 3, 4, 5, 6]),
    ("behinderungsgrad", [0, 20, 25, 30, 50, 55, 80, 100]),
    ("anz", [0, 1, 2, 3, 4, 5, 8, 12]),
    ("anspr", [0, 1, 2, 3]),
    ("grundr_zeiten", [0, 100, 395, 396, 400, 419, 420, 500]),
    ("grundr_bew_zeiten", [0, 1, 100, 400, 420]),
    ("monate", [0, 1, 2, 10, 12, 14, 24]),
    ("baujahr", [1950, 1965, 1966, 1971, 1972, 1991, 1992, 2005]),
    ("_id", [0, 1, 2, 7, 100]),
]


def gen_value(rnd, name, ann, leaves):
    if ann == "bool":
        return rnd.random() < 0.5
    if ann == "int":
        for key, vals in INT_RANGES:
            if key in name:
                return rnd.choice(vals)
        return rnd.choice([0, 1, 2, 3, 5, 10, 12, 24, 30, 60, 100])
    if ann == "float":
        r = rnd.random()
        if r < 0.12:
            return 0.0
        if r < 0.30 and leaves:
            base = float(rnd.choice(leaves))
            scale = rnd.choice([1.0, 1.0, 1.0 / 12.0, 12.0, 0.5, 2.0])
            delta = rnd.choice([0.0, 0.0, 0.01, -0.01, 1.0, -1.0])
            return round(base * scale + delta, 2)
        if r < 0.40:
            return round(rnd.uniform(0, 50), 2)
        if r < 0.65:
            return round(rnd.uniform(0, 3000), 2)
        if r < 0.85:
            return round(rnd.uniform(0, 12000), 2)
        if r < 0.95:
            return round(rnd.uniform(0, 400000), 2)
        return -round(rnd.uniform(0, 3000), 2)
    return None


def pytype(v):
    import numpy as np

    if isinstance(v, (bool, np.bool_)):
        return "bool"
    if isinstance(v, (int, np.integer)):
        return "int"
    if isinstance(v, (float, np.floating)):
        return "float"
    return type(v).__name__


def choose_dates(meta, classes, want):
    """greedy cover of all (function) validity intervals by class start dates"""
    todo = {m["name"] for m in meta}
    cover = {d: {m["name"] for m in meta if m["start"] <= d <= m["end"]} for d in classes}
    chosen = []
    pref = [datetime.date(y, 1, 1).toordinal() for y in (2024, 2019, 2015, 2010, 2005, 2021, 2023, 2001)]
    for d in pref:
        if d in cover and cover[d] & todo:
            chosen.append(d)
            todo -= cover[d]
    while todo:
        d = max(classes, key=lambda x: len(cover[x] & todo))
        if not cover[d] & todo:
            break
        chosen.append(d)
        todo -= cover[d]
    if want and len(chosen) > want:
        pass
    return chosen


def run_u1(tier="quick", only=None, verbose=False):
    t0 = time.time()
    warnings.filterwarnings("ignore")
    sys.path.insert(0, str(C.REPO / "src"))
    import importlib

    from _gettsim.policy_environment import set_up_policy_environment

    rules = json.loads((C.GEN / "rules.json").read_text(encoding="utf-8"))
    meta = rules["functions"]
    classes = rules["config"]["date_classes"]
    per_fun = 10 if tier == "quick" else 40
    dates = choose_dates(meta, classes, None)
    rnd = C.rng("u1")
    work = C.WORK / "u1"
    work.mkdir(parents=True, exist_ok=True)
    for old in work.glob("*"):
        old.unlink()
    stats = dict(functions_total=len(meta), functions_run=0, skipped={}, cases=0, dates=[],
                 exceptions={}, result_types={})
    done_funs = set()
    files = []
    case_index = {}
    for d in dates:
        date = datetime.date.fromordinal(d)
        try:
            params, _functions = set_up_policy_environment(date)
        except Exception as ex:  # noqa: BLE001
            stats["skipped"][f"date {date}"] = f"set_up_policy_environment raised {type(ex).__name__}"
            continue
        stats["dates"].append(date.isoformat())
        leaves_by_group = {}
        for g, pg in params.items():
            acc = []
            numeric_leaves(pg, acc)
            leaves_by_group[g] = acc
        lines = [
            "From Coq Require Import ZArith QArith Qcanon Bool String List.",
            "From GettsimModel Require Import Num Val Ast Eval Corr.",
            "From GettsimGen Require Import GenRules.",
            "Import ListNotations.",
            "Open Scope string_scope.",
        ]
        used_groups = set()
        cases = []
        for m in meta:
            if only and m["name"] not in only:
                continue
            if not (m["start"] <= d <= m["end"]):
                continue
            # quick: each function once (first covering date); thorough: at every chosen date
            if tier == "quick" and m["name"] in done_funs:
                continue
            if m["opaque"]:
                stats["skipped"][m["name"]] = "opaque: " + m["opaque"]
                continue
            if m["skipvec"]:
                stats["skipped"][m["name"]] = "array-level (skip_vectorization)"
                continue
            groups = []
            ok = True
            for a, ann in zip(m["args"], m["arg_annots"]):
                if a.endswith("_params"):
                    if a[:-7] not in params:
                        ok = False
                    groups.append(a[:-7])
                elif ann not in ("int", "float", "bool"):
                    ok = False
            if not ok:
                stats["skipped"][m["name"]] = "argument kinds not scalar"
                continue
            pym = importlib.import_module(m["module"])
            f = getattr(pym, m["name"])
            leaves = [x for g in groups for x in leaves_by_group.get(g, [])]
            done_funs.add(m["name"])
            for _k in range(per_fun):
                kwargs = {}
                cargs = []
                for a, ann in zip(m["args"], m["arg_annots"]):
                    if a.endswith("_params"):
                        kwargs[a] = params[a[:-7]]
                        used_groups.add(a[:-7])
                        cargs.append(f"P_{C_mangle(a[:-7])}")
                    else:
                        v = gen_value(rnd, a, ann, leaves)
                        kwargs[a] = v
                        cargs.append(C.py_to_val(v))
                try:
                    with warnings.catch_warnings():
                        warnings.simplefilter("ignore")
                        out = f(**kwargs)
                    exp = f"(XVal {C.py_to_val(out)})"
                    t = pytype(out)
                    stats["result_types"][t] = stats["result_types"].get(t, 0) + 1
                    shown = repr(out)
                except Exception as ex:  # noqa: BLE001
                    kind = type(ex).__name__
                    stats["exceptions"][kind] = stats["exceptions"].get(kind, 0) + 1
                    exp = f"(XErr {C.EXC_MAP[kind]})" if kind in C.EXC_MAP else "XAnyErr"
                    shown = f"{kind}: {ex}"
                cid = len(case_index)
                case_index[cid] = dict(
                    date=date.isoformat(), function=m["name"],
                    kwargs={k: v for k, v in kwargs.items() if not k.endswith("_params")},
                    python=shown,
                )
                cases.append(
                    f"({cid}%nat, call_rule all_fundefs {m['coq']} [{'; '.join(cargs)}], {exp})"
                )
        if not cases:
            continue
        for g in sorted(used_groups):
            lines.append(f"Definition P_{C_mangle(g)} : val := {C.py_to_val(params[g])}.")
        # shards of <= 400 cases
        shard = 400
        for si in range(0, len(cases), shard):
            part = cases[si:si + shard]
            body = list(lines)
            body.append("Definition cases : list (nat * res val * expect) := [")
            body.append(";\n".join(part))
            body.append("].")
            body.append("Definition bad := filter (fun c => match c with (_, r, x) => negb (agrees r x) end) cases.")
            body.append('Eval vm_compute in (map (fun c => match c with (i, r, _) => (i, show_res r) end) bad).')
            fn = work / f"U1_{date.strftime('%Y%m%d')}_{si // shard}.v"
            fn.write_text("\n".join(body) + "\n", encoding="utf-8")
            files.append(fn)
        stats["cases"] += len(cases)
    stats["functions_run"] = len(done_funs)
    # run coq in parallel
    import concurrent.futures as cf

    bad = []
    machinery = []

    def one(fn):
        return fn, C.coqc(fn, timeout=900)

    with cf.ThreadPoolExecutor(max_workers=8) as ex:
        for fn, (rc, out, err, secs) in ex.map(one, files):
            if rc != 0:
                machinery.append(dict(file=fn.name, rc=rc, err=err[-2000:]))
                continue
            bad.extend(parse_bad(out))
    mism = []
    for cid, shown in bad:
        info = dict(case_index[cid])
        info["model"] = shown
        mism.append(info)
    # classify float-ambiguous mismatches by perturbation on the Python side
    real = []
    ambiguous = 0
    for mm in mism:
        if is_float_ambiguous(mm, meta):
            ambiguous += 1
        else:
            real.append(mm)
    stats.update(mismatches=len(real), float_ambiguous=ambiguous, machinery_errors=machinery,
                 wall_s=round(time.time() - t0, 1))
    samples = [case_index[i] for i in list(case_index)[:3]]
    return dict(stats=stats, mismatches=real[:50], samples=samples)


def C_mangle(s):
    from translate import mangle

    return mangle(s)


def parse_bad(out: str):
    """parse `= [(3, "..."); (5, "...")] : list (nat * string)`"""
    import re

    res = []
    txt = out[out.find("=") + 1:] if "=" in out else ""
    for m in re.finditer(r'\((\d+)(?:%nat)?,\s*"((?:[^"]|"")*)"\)', txt, flags=re.S):
        res.append((int(m.group(1)), " ".join(m.group(2).split())))
    return res


def is_float_ambiguous(mm, meta):
    """A mismatch is float-ambiguous when perturbing one float input of the Python call by
    a relative 1e-9 changes the Python result discontinuously (the case sits on a
    comparison / floor boundary where exact and float arithmetic may legitimately part)."""
    import importlib

    from _gettsim.policy_environment import set_up_policy_environment

    m = next(x for x in meta if x["name"] == mm["function"])
    f = getattr(importlib.import_module(m["module"]), m["name"])
    params, _ = set_up_policy_environment(datetime.date.fromisoformat(mm["date"]))
    base = dict(mm["kwargs"])
    for a in m["args"]:
        if a.endswith("_params"):
            base[a] = params[a[:-7]]

    def call(kw):
        try:
            with warnings.catch_warnings():
                warnings.simplefilter("ignore")
                return ("ok", f(**kw))
        except Exception as ex:  # noqa: BLE001
            return ("err", type(ex).__name__)

    r0 = call(base)
    for a, v in mm["kwargs"].items():
        if isinstance(v, float) and v != 0.0:
            for eps in (1e-9, -1e-9, 1e-7, -1e-7):
                kw = dict(base)
                kw[a] = v * (1 + eps)
                r1 = call(kw)
                if r0[0] != r1[0]:
                    return True
                if r0[0] == "ok":
                    try:
                        a0, a1 = float(r0[1]), float(r1[1])
                    except Exception:  # noqa: BLE001
                        continue
                    if abs(a0 - a1) > 1e-4 * max(1.0, abs(a0)):
                        return True
    return False


if __name__ == "__main__":
    tier = sys.argv[1] if len(sys.argv) > 1 else "quick"
    only = set(sys.argv[2:]) or None
    res = run_u1(tier, only)
    print(json.dumps(res["stats"], indent=1, ensure_ascii=False))
    for mm in res["mismatches"][:40]:
        print("MISMATCH", json.dumps(mm, ensure_ascii=False))
