#!/venv/bin/python
"""sync + build: regenerate coq/gen from /repo when its sources changed, then make
theories + gen (full .vo build, under timeout, under a file lock so that parallel
checks share one build)."""
from __future__ import annotations

import json
import sys
import time
from pathlib import Path

sys.path.insert(0, str(Path(__file__).resolve().parent))
import common as C  # noqa: E402

GEN_FILES = ["GenRules.v", "GenRegistry.v", "GenYaml.v", "GenConfig.v", "GenDag.v"]


def current_hash():
    rc, out, err, _ = C.run([C.PY, "-c",
                             "import sys; sys.path.insert(0, %r); import translate; print(translate.source_hash())"
                             % str(C.VERIF / "tools")], timeout=120)
    if rc != 0:
        raise RuntimeError("source hash failed: " + err)
    return out.strip().splitlines()[-1]


def ensure_built(verbose=False):
    """returns dict(ok, regenerated, log, translator)"""
    t0 = time.time()
    with C.locked("build"):
        C.GEN.mkdir(parents=True, exist_ok=True)
        h = current_hash()
        stamp = C.GEN / ".hash"
        regenerated = False
        tr_out = ""
        if not stamp.exists() or stamp.read_text().strip() != h or any(
            not (C.GEN / f).exists() for f in GEN_FILES + ["rules.json"]
        ):
            # translate into a scratch dir, then move only changed files (keeps make incremental)
            rc, out, err, _ = C.run([C.PY, str(C.VERIF / "tools" / "translate.py")], timeout=600)
            tr_out = out + err
            if rc != 0:
                return dict(ok=False, stage="translate", log=tr_out, wall_s=time.time() - t0)
            rc, out, err, _ = C.run([C.PY, str(C.VERIF / "tools" / "dagdump.py")], timeout=900)
            tr_out += out + err
            if rc != 0:
                return dict(ok=False, stage="dagdump", log=tr_out, wall_s=time.time() - t0)
            stamp.write_text(h)
            regenerated = True
        mk = C.COQ / "Makefile"
        proj = C.COQ / "_CoqProject"
        want = (C.COQ / "_CoqProject.in").read_text() + "".join(
            f"gen/{p.name}\n" for p in sorted(C.GEN.glob("GenDag*.v")))
        if not proj.exists() or proj.read_text() != want:
            proj.write_text(want)
        if not mk.exists() or mk.stat().st_mtime < proj.stat().st_mtime:
            rc, out, err, _ = C.run(["coq_makefile", "-f", "_CoqProject", "-o", "Makefile"], cwd=str(C.COQ))
            if rc != 0:
                return dict(ok=False, stage="coq_makefile", log=out + err, wall_s=time.time() - t0)
        rc, out, err, _ = C.run(["timeout", "1500", "make", "-j12"], cwd=str(C.COQ), timeout=1600)
        if rc != 0:
            return dict(ok=False, stage="make", log=(out + err)[-6000:], wall_s=time.time() - t0)
        return dict(ok=True, regenerated=regenerated, translator=tr_out, hash=h, wall_s=time.time() - t0)


if __name__ == "__main__":
    r = ensure_built()
    print(json.dumps({k: v for k, v in r.items() if k != "translator"}, indent=1))
    print(r.get("translator", ""))
    sys.exit(0 if r["ok"] else 2)
